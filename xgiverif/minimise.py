"""Delta debugging over a recorded op list.  Because every record is executable in any
state, every subsequence of a trace is a trace.  Bounded by a step budget, not a clock."""

import copy

from .labels import dec, enc
from .sim import Sim


def replay_ops(prop, cfg, ops, xgi=None, hooks=None):
    s = Sim(prop, cfg, None, xgi)
    s.hooks = hooks
    res = s.run_replay(copy.deepcopy(ops))
    return res


def same_failure(res, fp):
    v = res.get("violation")
    return v is not None and v["fingerprint"] == fp


def ddmin(prop, cfg, ops, fp, xgi=None, hooks=None, budget=400):
    """Returns a (locally) minimal sub-list of ops that still yields fingerprint fp."""
    tests = [0]
    import time
    t_end = time.time() + float(__import__("os").environ.get("VERIF_MINIMISE_WALL", "40"))

    def fails(candidate):
        tests[0] += 1
        if time.time() > t_end:
            tests[0] = budget  # wall cap (a hanging SUT makes every replay cost a step budget)
            return False
        try:
            return same_failure(replay_ops(prop, cfg, candidate, xgi, hooks), fp)
        except Exception:
            return False

    # cut everything after the violating step first
    n = 2
    cur = list(ops)
    while len(cur) >= 2 and tests[0] < budget:
        chunk = max(1, len(cur) // n)
        subsets = [cur[i:i + chunk] for i in range(0, len(cur), chunk)]
        reduced = False
        for i in range(len(subsets)):
            comp = [x for j, s in enumerate(subsets) if j != i for x in s]
            if comp and fails(comp):
                cur = comp
                n = max(n - 1, 2)
                reduced = True
                break
            if tests[0] >= budget:
                break
        if not reduced:
            if n >= len(cur):
                break
            n = min(len(cur), n * 2)
    # argument shrinking: drop faults, attrs, shorten bunches
    cur = shrink_args(prop, cfg, cur, fp, fails, tests, budget)
    return cur, tests[0]


def shrink_args(prop, cfg, ops, fp, fails, tests, budget):
    cur = copy.deepcopy(ops)
    changed = True
    while changed and tests[0] < budget:
        changed = False
        for i, rec in enumerate(cur):
            for cand in variants(rec):
                trial = cur[:i] + [cand] + cur[i + 1:]
                if fails(trial):
                    cur = trial
                    changed = True
                    break
                if tests[0] >= budget:
                    return cur
    return cur


def variants(rec):
    """Simpler versions of one record."""
    out = []
    if "fault" in rec and rec["fault"].get("kind") == "oneshot":
        pass
    args = rec.get("args", {})
    # drop attrs
    if isinstance(args.get("attr"), dict) and args["attr"].get("d"):
        r = copy.deepcopy(rec)
        r["args"]["attr"] = {"d": []}
        out.append(r)
    # shorten bulk items
    items = args.get("items")
    if isinstance(items, dict) and "l" in items and len(items["l"]) > 1:
        for k in range(len(items["l"])):
            r = copy.deepcopy(rec)
            del r["args"]["items"]["l"][k]
            out.append(r)
    for key in ("nodes", "ebunch"):
        v = args.get(key)
        if isinstance(v, dict) and "l" in v and len(v["l"]) > 1:
            for k in range(len(v["l"])):
                r = copy.deepcopy(rec)
                del r["args"][key]["l"][k]
                out.append(r)
    # plain containers instead of sets / iterators (only when no stream fault is the point)
    if args.get("mtype") not in (None, "list") and not rec.get("fault"):
        r = copy.deepcopy(rec)
        r["args"]["mtype"] = "list"
        out.append(r)
    return out
