"""Deterministic simulation with fault injection for xgi (see /verif/DESIGN.md)."""
