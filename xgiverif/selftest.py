"""Self-tests of the machinery.

determinism: every run index is executed twice -- once by the normal 16-worker batch and
    once by a 4-worker batch started under another ambient PYTHONHASHSEED -- and the
    event-log digests must be identical run by run.
mutants:     every patch under /verif/mutants (tagged with the property it must trip) is
    applied to a scratch copy of /repo/xgi; the property's check, pointed at the copy via
    XGI_SRC, must exit 1 with a replaying VIOLATION.  The scratch copy is removed afterwards.
"""

import json
import os
import shutil
import subprocess
import sys
import tempfile
import time

ROOT = os.path.dirname(os.path.dirname(os.path.abspath(__file__)))
PY = "/venv/bin/python"


def digests(prop, nruns, workers, ambient, tier="quick"):
    """Run a batch through the worker protocol and return {index: digest}."""
    from . import runner

    ncls = len(runner.HASHSEEDS)
    nslots = max(1, workers // ncls)
    tmpdir = tempfile.mkdtemp(prefix="xgiverif-det-", dir="/dev/shm")
    procs = []
    for cls in range(ncls):
        for slot in range(nslots):
            outfile = os.path.join(tmpdir, f"w{cls}_{slot}.jsonl")
            env = dict(os.environ, PYTHONHASHSEED=runner.HASHSEEDS[cls], OMP_NUM_THREADS="1",
                       OPENBLAS_NUM_THREADS="1", MKL_NUM_THREADS="1", MPLBACKEND="Agg",
                       VERIF_AMBIENT=str(ambient))
            p = subprocess.Popen([PY, os.path.join(ROOT, "check"), "--worker", prop, tier,
                                  os.environ.get("VERIF_SEED", "0"), str(cls), str(slot), str(nslots),
                                  str(nruns), outfile], env=env, stdout=subprocess.DEVNULL,
                                 stderr=subprocess.PIPE)
            procs.append((p, outfile))
    out = {}
    errs = []
    for p, outfile in procs:
        _, err = p.communicate(timeout=3000)
        if p.returncode != 0:
            errs.append(err.decode(errors="replace")[-800:])
        with open(outfile) as f:
            for ln in f:
                d = json.loads(ln)
                if "index" in d:
                    out[d["index"]] = d.get("digest", "HARNESS:" + d.get("harness_error", ""))
    shutil.rmtree(tmpdir, ignore_errors=True)
    return out, errs


def determinism(props, nruns=200):
    bad = 0
    for prop in props:
        t0 = time.time()
        a, e1 = digests(prop, nruns, 16, 0)
        b, e2 = digests(prop, nruns, 4, 12345)
        diff = [i for i in range(nruns) if a.get(i) != b.get(i)]
        harness = [i for i in range(nruns) if str(a.get(i, "")).startswith("HARNESS")]
        print(f"determinism {prop}: {nruns} seeds x 2 (16 workers vs 4 workers, two ambient hash seeds): "
              f"{len(diff)} divergent, {len(harness)} harness errors, {time.time() - t0:.1f}s")
        if diff or e1 or e2 or harness or len(a) != nruns:
            bad += 1
            print("   divergent run indices:", diff[:20], e1[:1], e2[:1])
    return 1 if bad else 0


def load_mutants(names=None):
    mdir = os.path.join(ROOT, "mutants")
    out = []
    for fn in sorted(os.listdir(mdir)):
        if not fn.endswith(".json"):
            continue
        meta = json.load(open(os.path.join(mdir, fn)))
        meta["name"] = fn[:-5]
        meta["patch"] = os.path.join(mdir, fn[:-5] + ".patch")
        if names and meta["name"] not in names:
            continue
        out.append(meta)
    return out


def run_mutant(meta, tier="quick"):
    scratch = tempfile.mkdtemp(prefix="xgiverif-mut-", dir="/dev/shm")
    try:
        shutil.copytree("/repo/xgi", os.path.join(scratch, "xgi"))
        r = subprocess.run(["patch", "-p1", "-s", "-d", scratch, "-i", meta["patch"]] +
                           (["-R"] if meta.get("reverse") else []), capture_output=True, text=True)
        if r.returncode != 0:
            return {"name": meta["name"], "status": "patch-failed", "detail": r.stdout + r.stderr}
        results = {}
        for prop in meta["properties"]:
            env = dict(os.environ, XGI_SRC=scratch, VERIF_NO_EVIDENCE="1")
            t0 = time.time()
            r = subprocess.run([PY, os.path.join(ROOT, "check"), prop, "--tier", tier, "--no-evidence"],
                               env=env, capture_output=True, text=True)
            vio = [ln for ln in r.stdout.splitlines() if ln.startswith("VIOLATION")]
            results[prop] = {"exit": r.returncode, "violations": len(vio), "wall": round(time.time() - t0, 1),
                             "first": (vio[0] if vio else r.stdout[-300:])}
            # replay files written for a mutant are of no further use
            for ln in vio:
                path = ln.split("replay=", 1)[1].strip()
                try:
                    os.unlink(path)
                except OSError:
                    pass
        caught = [p for p, v in results.items() if v["exit"] == 1 and v["violations"] > 0]
        return {"name": meta["name"], "status": "caught" if caught else "MISSED", "by": caught,
                "results": results}
    finally:
        shutil.rmtree(scratch, ignore_errors=True)


def mutants(names):
    metas = load_mutants(names)
    missed = 0
    for meta in metas:
        res = run_mutant(meta)
        print(f"mutant {res['name']}: {res['status']} {res.get('by', '')} "
              f"{ {p: (v['exit'], v['wall']) for p, v in res.get('results', {}).items()} }")
        if res["status"] != "caught":
            missed += 1
            print("    ", json.dumps(res)[:600])
    print(f"mutants: {len(metas) - missed}/{len(metas)} caught")
    return 1 if missed else 0


def main(argv):
    if not argv:
        print(__doc__)
        return 2
    if argv[0] == "determinism":
        props = argv[1:] or ["C01", "C02", "C03", "C05"]
        return determinism(props)
    if argv[0] == "mutants":
        return mutants(argv[1:])
    print(__doc__)
    return 2
