"""File seam: the *raw device* under Python's real buffering / text layers is simulated.

builtins.open, io.open and numpy's default opener are replaced (for paths under the SimFS
root only) by SimFS.open, which builds the same stack io.open builds -- TextIOWrapper over
BufferedReader/BufferedWriter -- on top of FaultyRaw, a FileIO whose read/write/close consult
the fault plan of the current operation:

    short writes (the device accepts j < n bytes), short reads, ENOSPC / EIO after k bytes
    written, EIO after k bytes read, failing open(), failing close().

Real code: buffering, decoding, json, numpy text parsing.  Stub: only the raw device.
"""
import builtins
import errno
import io
import os
import shutil
import tempfile


class Plan:
    """fault plan of one file operation (consulted by every FaultyRaw opened meanwhile)"""

    def __init__(self, wchunk=None, rchunk=None, fault=None):
        self.wchunk = wchunk  # max bytes accepted per raw write (None = unlimited)
        self.rchunk = rchunk  # max bytes returned per raw read
        self.fault = fault or {}
        self.fired = {}
        self.bytes_written = 0
        self.bytes_read = 0
        self.opens = 0
        self.short_writes = 0
        self.short_reads = 0

    def fire(self, kind):
        self.fired[kind] = self.fired.get(kind, 0) + 1


class FaultyRaw(io.FileIO):
    def __init__(self, fs, path, mode):
        self._fs = fs
        plan = fs.plan
        plan.opens += 1
        f = plan.fault
        if f.get("kind") == "open_fail" and plan.opens == f.get("nth_open", 1):
            plan.fire("open_fail")
            raise OSError(f.get("errno", errno.EACCES), "injected: open failed", path)
        super().__init__(path, mode)

    # ---- writes ----
    def write(self, b):
        plan = self._fs.plan
        mv = memoryview(b).cast("B")
        n = len(mv)
        f = plan.fault
        if f.get("kind") in ("enospc", "eio_write"):
            room = f.get("at", 0) - plan.bytes_written
            if room <= 0:
                plan.fire(f["kind"])
                raise OSError(errno.ENOSPC if f["kind"] == "enospc" else errno.EIO,
                              "injected: device " + ("full" if f["kind"] == "enospc" else "error"))
            n = min(n, room)
        if plan.wchunk is not None and n > plan.wchunk:
            n = plan.wchunk
        if n < len(mv):
            plan.short_writes += 1
        w = super().write(mv[:n])
        plan.bytes_written += w or 0
        return w

    # ---- reads ----
    def _read_room(self, want):
        plan = self._fs.plan
        f = plan.fault
        if f.get("kind") == "eio_read":
            room = f.get("at", 0) - plan.bytes_read
            if room <= 0:
                plan.fire("eio_read")
                raise OSError(errno.EIO, "injected: read error")
            want = min(want, room) if want is not None and want >= 0 else room
        if plan.rchunk is not None and (want is None or want < 0 or want > plan.rchunk):
            if want is None or want < 0 or want > plan.rchunk:
                plan.short_reads += 1
            want = plan.rchunk
        return want

    def readinto(self, b):
        mv = memoryview(b).cast("B")
        want = self._read_room(len(mv))
        n = super().readinto(mv[:want])
        self._fs.plan.bytes_read += n or 0
        return n

    def read(self, size=-1):
        if size is None or size < 0:
            return self.readall()
        want = self._read_room(size)
        data = super().read(want)
        self._fs.plan.bytes_read += len(data or b"")
        return data

    def readall(self):
        chunks = []
        while True:
            want = self._read_room(1 << 16)
            data = super().read(want)
            if not data:
                break
            self._fs.plan.bytes_read += len(data)
            chunks.append(data)
        return b"".join(chunks)

    def close(self):
        plan = self._fs.plan
        was_closed = self.closed
        super().close()
        f = plan.fault
        if not was_closed and f.get("kind") == "close_fail" and not plan.fired.get("close_fail"):
            plan.fire("close_fail")
            raise OSError(errno.EIO, "injected: close failed")


_ROOTS = set()


def _cleanup_roots():
    # scratch directories of runs that ended early (a violation, a harness error) are removed
    # when the worker process exits
    for r in list(_ROOTS):
        shutil.rmtree(r, ignore_errors=True)


import atexit  # noqa: E402

atexit.register(_cleanup_roots)


class SimFS:
    def __init__(self):
        self.root = tempfile.mkdtemp(prefix="xgiverif-fs-", dir="/dev/shm")
        _ROOTS.add(self.root)
        self.plan = Plan()
        self._saved = None

    def path(self, name):
        return os.path.join(self.root, name)

    def inside(self, file):
        try:
            p = os.fspath(file)
        except TypeError:
            return False
        if isinstance(p, bytes):
            p = p.decode(errors="replace")
        return os.path.abspath(p).startswith(self.root + os.sep)

    def open(self, file, mode="r", buffering=-1, encoding=None, errors=None, newline=None, closefd=True,
             opener=None):
        if not self.inside(file):
            return self._real_open(file, mode, buffering, encoding, errors, newline, closefd, opener)
        binary = "b" in mode
        rawmode = mode.replace("b", "").replace("t", "")
        raw = FaultyRaw(self, os.fspath(file), rawmode)
        if buffering == 0:
            if not binary:
                raw.close()
                raise ValueError("can't have unbuffered text I/O")
            return raw
        try:
            bufsize = buffering if buffering and buffering > 1 else io.DEFAULT_BUFFER_SIZE
            if self.plan.wchunk is not None or self.plan.rchunk is not None:
                bufsize = max(8, min(bufsize, 4 * max(self.plan.wchunk or 1, self.plan.rchunk or 1)))
            if "+" in rawmode:
                buf = io.BufferedRandom(raw, bufsize)
            elif rawmode[0] == "r":
                buf = io.BufferedReader(raw, bufsize)
            else:
                buf = io.BufferedWriter(raw, bufsize)
            if binary:
                return buf
            text = io.TextIOWrapper(buf, encoding, errors, newline)
            text.mode = mode
            return text
        except Exception:
            raw.close()
            raise

    # ---- seam management ----
    def __enter__(self):
        from numpy.lib import _datasource as ds

        self._real_open = io.open
        self._saved = (builtins.open, io.open, ds._file_openers._file_openers.get(None))
        builtins.open = self.open
        io.open = self.open
        ds._file_openers._file_openers[None] = self.open
        return self

    def __exit__(self, *a):
        from numpy.lib import _datasource as ds

        builtins.open, io.open, np_open = self._saved
        ds._file_openers._file_openers[None] = np_open
        self._saved = None

    def destroy(self):
        shutil.rmtree(self.root, ignore_errors=True)
        _ROOTS.discard(self.root)
