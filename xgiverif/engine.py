"""The simulated world: actors (SUT object + reference model), step execution, oracles.

Every step is one self-contained JSON record (see gen.py).  A record can be executed in
any state: if it names an actor that does not exist the step is a no-op, if it names IDs
that do not exist it exercises the missing-ID path and the model says what must happen.
"""

import hashlib
import json
import pickle
import warnings
from collections import Counter
from copy import deepcopy

from . import models as M
from .labels import canon, csort, dec, enc, refresh
from .snap import (counts_consistent, digest_form, integrity, kind_of, simplicial_invariants,
                   snapshot, structural_key)
from .streams import Dying, OneShot, StreamDied, container

INTEGRITY_PROP = {"H": "C01", "DH": "C02", "SC": "C03"}

SC_OWN = {
    "add_node", "add_nodes_from", "remove_node", "remove_nodes_from", "add_simplex",
    "add_simplices_from", "add_weighted_simplices_from", "remove_simplex_id",
    "remove_simplex_ids_from", "close", "cleanup", "alias_add_edge", "alias_add_edges_from",
    "alias_add_weighted_edges_from", "alias_remove_edge", "alias_remove_edges_from",
    "set_node_attributes", "set_edge_attributes", "set_net_attr", "clear", "freeze",
    "convert_labels_to_integers", "largest_connected_hypergraph",
}

ADD_OPS = {
    "add_edge", "add_edges_from", "add_weighted_edges_from", "add_simplex", "add_simplices_from",
    "add_weighted_simplices_from", "alias_add_edge", "alias_add_edges_from",
    "alias_add_weighted_edges_from", "update", "add_node_to_edge",
}


class Finding:
    def __init__(self, props, clause, op, fault, kind, detail):
        self.props = set(props)
        self.clause = clause
        self.op = op
        self.fault = fault or "none"
        self.kind = kind
        self.detail = detail

    def fingerprint(self):
        return f"{self.clause}|{self.op}|{self.fault}|{self.kind}"

    def to_json(self):
        return {"props": sorted(self.props), "clause": self.clause, "op": self.op,
                "fault": self.fault, "kind": self.kind, "detail": self.detail,
                "fingerprint": self.fingerprint()}


class HarnessError(Exception):
    pass


class Actor:
    def __init__(self, name, sut, model, lineage):
        self.name = name
        self.sut = sut
        self.model = model
        self.kind = model.kind
        self.lineage = lineage
        self.tainted = False  # took part in a shallow derivation: no nested-value edits
        self.snap = None
        self.muts = 0


def is_lib_exc(xgi, ex):
    return type(ex).__module__ == xgi.exception.__name__


def real_warnings(wl):
    out = []
    for w in wl:
        if issubclass(w.category, (DeprecationWarning, PendingDeprecationWarning)):
            continue
        msg = str(w.message)
        if "is deprecated in SimplicialComplex" in msg:
            continue
        out.append(msg)
    return out


# ---------------------------------------------------------------------------
# comparison SUT snapshot  <->  model
def order_matches(model_order, sut_order, groups):
    if len(model_order) != len(sut_order):
        return False
    gidx = {}
    for i, g in enumerate(groups):
        for x in g:
            gidx[x] = i
    n = len(model_order)
    i = 0
    while i < n:
        g = gidx.get(model_order[i])
        if g is None:
            if not same_label(sut_order[i], model_order[i]):
                return False
            i += 1
        else:
            j = i
            while j < n and gidx.get(model_order[j]) == g:
                j += 1
            if set(model_order[i:j]) != set(sut_order[i:j]):
                return False
            i = j
    return True


def same_label(a, b):
    return a == b


def eqm(a, b):
    """member sets compared by equality of labels (4 and 4.0 are the same node), never by repr"""
    if isinstance(a, tuple):
        return set(a[0]) == set(b[0]) and set(a[1]) == set(b[1])
    return set(a) == set(b)


def compare(snap, model, exp=None, check_order=True):
    """list of (clause, detail) differences between a SUT snapshot and a model."""
    diffs = []
    mn, sn = list(model.nodes), snap["nodes"]
    if set(mn) != set(sn) or len(mn) != len(sn):
        diffs.append(("node_set", f"sut-only={csort(set(sn) - set(mn))!r} model-only={csort(set(mn) - set(sn))!r}"))
    elif check_order and not (exp is not None and exp.nodes_order_free):
        groups = exp.node_groups if exp is not None else []
        if not order_matches(mn, sn, groups):
            diffs.append(("node_order", f"sut={sn!r} model={mn!r}"))
    me, se = list(model.edges), snap["edges"]
    if set(me) != set(se) or len(me) != len(se):
        diffs.append(("edge_set", f"sut-only={csort(set(se) - set(me))!r} model-only={csort(set(me) - set(se))!r}"))
    elif check_order and not (exp is not None and exp.edges_order_free):
        if me != se:
            diffs.append(("edge_order", f"sut={se!r} model={me!r}"))
    for e in se:
        if e in model.edges:
            a, b = snap["members"][e], model.edges[e]
            if model.kind == "DH":
                same = set(a[0]) == set(b[0]) and set(a[1]) == set(b[1])
            else:
                same = set(a) == set(b)
            if not same:
                diffs.append(("members", f"edge {e!r}: sut={canon(a)!r} model={canon(b)!r}"))
            if snap["eattr"][e] != model.eattr[e]:
                diffs.append(("edge_attrs", f"edge {e!r}: sut={snap['eattr'][e]!r} model={model.eattr[e]!r}"))
    for n in sn:
        if n in model.nodes and snap["nattr"][n] != model.nodes[n]:
            diffs.append(("node_attrs", f"node {n!r}: sut={snap['nattr'][n]!r} model={model.nodes[n]!r}"))
    if snap["net"] != model.net:
        diffs.append(("net_attrs", f"sut={snap['net']!r} model={model.net!r}"))
    return diffs


def adopt_order(model, snap):
    """Reorder model dicts to the SUT's iteration order (sets are known to be equal)."""
    model.nodes = {n: model.nodes[n] for n in snap["nodes"]}
    model.edges = {e: model.edges[e] for e in snap["edges"]}
    model.eattr = {e: model.eattr[e] for e in snap["edges"]}


# ---------------------------------------------------------------------------
class World:
    def __init__(self, xgi, cfg):
        self.xgi = xgi
        self.cfg = cfg
        self.actors = {}
        self.log = []
        self.stats = Counter()
        self.probes = Counter()
        self.findings = []
        self.states = set()
        self.trigrams = set()
        self._last_ops = []
        self.holds = {}
        self.step_no = 0
        self.extra = {}

    # -- logging (no PRNG, no clock) --
    def logev(self, *parts):
        self.log.append(canon(list(parts)))

    def digest(self):
        h = hashlib.sha256()
        for ev in self.log:
            h.update(json.dumps(ev, sort_keys=True, default=repr).encode())
        return h.hexdigest()

    def find(self, props, clause, rec, kind, detail):
        f = Finding(props, clause, rec.get("op", "?"), (rec.get("fault") or {}).get("kind"), kind,
                    detail)
        f.step_uid = rec.get("uid")
        self.findings.append(f)
        self.logev("FINDING", f.fingerprint(), detail)
        return f

    def note_state(self, actor):
        if actor.snap is not None:
            self.states.add(hashlib.md5(structural_key(actor.snap).encode()).hexdigest())


# ---------------------------------------------------------------------------
# builders: record args -> (sut_call, model_args, info)

def _attr(a):
    return dict(a or {})


def _apply_member_fault(items, fault, idx_of_members=0):
    """poison one member position inside a list of item tuples (in place)."""
    if not fault or fault.get("kind") not in ("none_member", "unhashable_member"):
        return
    if not items:
        return
    i = fault.get("item", 0) % len(items)
    mem = list(items[i][idx_of_members])
    pos = fault.get("pos", 0) % (len(mem) + 1)
    mem.insert(pos, None if fault["kind"] == "none_member" else [9, 9])
    items[i] = tuple(mem if k == idx_of_members else v for k, v in enumerate(items[i]))


def _order_for_sniff(members):
    """xgi tells bulk formats apart by the first element of the first item: a format-1 edge
    must start with a non-iterable member unless all members are strings (documented rule)."""
    mem = list(members)
    if mem and isinstance(mem[0], str) and not all(isinstance(x, str) for x in mem):
        k = next(i for i, x in enumerate(mem) if not isinstance(x, str))
        mem[0], mem[k] = mem[k], mem[0]
    return mem


def _payload(i, a, fault):
    """the per-item attribute payload handed to xgi: normally a dict; under the attr_pairs fault
    an iterable of (key, value) pairs (equally valid for dict.update), under attr_junk a
    non-mapping value -- never for the first item, which the format sniffing inspects"""
    d = dict(a or {})
    if fault and i >= 1 and fault.get("item", 0) == i:
        if fault.get("kind") == "attr_pairs":
            return list(d.items())
        if fault.get("kind") == "attr_junk":
            return 7
    return d


def _bunch_undirected(fmt, items, mtype, fault=None, share=False, view_item=None, view_which="view_nodes"):
    """items: [(members(list), idx, eattr)] -> python bunch in xgi's format `fmt`.
    share: consecutive items with equal content are handed the *same* container / dict object (a
    caller that builds its bunch from one object, e.g. dict.fromkeys(ids, members))."""
    cache = {}

    def cont(i, mem):
        c = _cont(i, mem)
        if share and i >= 1 and not hasattr(c, "__next__"):
            key = ("m", type(c).__name__, repr(list(mem)))
            return cache.setdefault(key, c)
        return c

    def pay(i, a):
        d = _payload(i, a, fault)
        if share and i >= 1 and isinstance(d, dict):
            return cache.setdefault(("a", repr(sorted(d.items(), key=repr))), d)
        return d

    def _cont(i, mem):
        mem = list(mem)
        mt = mtype
        if view_item is not None and i == view_item and i >= 1:
            return container(mem, view_which)
        if i == 0 and fmt == 1:
            mem = _order_for_sniff(mem)
            if mt in ("set", "frozenset") and not (
                    all(isinstance(x, str) for x in mem) or not any(isinstance(x, str) for x in mem)):
                mt = "list"
            if mt == "iter":
                mt = "list"  # the first item is inspected with len()/indexing by the sniffing code
        if i == 0 and mt == "iter":
            mt = "list"
        return container(mem, mt)

    if fmt == 1:
        return [cont(i, m) for i, (m, _, _) in enumerate(items)]
    if fmt == 2:
        return [(cont(i, m), idx) for i, (m, idx, _) in enumerate(items)]
    if fmt == 3:
        return [(cont(i, m), pay(i, a)) for i, (m, _, a) in enumerate(items)]
    if fmt == 4:
        return [(cont(i, m), idx, pay(i, a)) for i, (m, idx, a) in enumerate(items)]
    if fmt == 5:
        return {idx: cont(1, m) for (m, idx, _) in items}
    raise ValueError(fmt)


def _norm_items_undirected(fmt, items):
    out = []
    for m, idx, a in items:
        if fmt in (1, 3):
            idx = None
        if fmt in (1, 2, 5):
            a = None
        out.append((list(m), idx, a))
    if fmt == 5:
        d = {}
        for m, idx, a in out:
            d[idx] = (m, idx, None)  # later duplicates replace the value, keep first position
        out = list(d.values())
    return out


def _stream(bunch, fault, stream):
    if isinstance(bunch, dict):
        return bunch
    if fault and fault.get("kind") == "dying":
        return Dying(bunch, fault.get("after", 0))
    if stream == "iter":
        return OneShot(bunch)
    return bunch


def _dying_prefix(items, fault):
    if fault and fault.get("kind") == "dying":
        return items[: max(0, fault.get("after", 0))], True
    return items, False


# explicit edge IDs on which the ID-counter bookkeeping raises (TypeError / OverflowError) *after*
# the edge has been stored: an exception at a particular point inside the call (fault "exotic_id")
EXOTIC_IDS = [b"1", 10 ** 400, complex(1, 2), frozenset({"a"})]


def build(kind, op, a, fault):
    """Returns (call, model_op, model_args, info)."""
    info = {"relaxed": False, "oserror": False, "named": set()}
    fk = (fault or {}).get("kind")
    POS = bool(a.get("positional"))  # optional parameters passed by position, in the documented order
    if fk == "exotic_id":
        x = EXOTIC_IDS[fault.get("pos", 0) % len(EXOTIC_IDS)]
        if op in ("add_edge", "add_simplex", "alias_add_edge") and a.get("idx") is not None:
            a = dict(a, idx=x)
            info["exotic"] = [x]
        elif op in ("add_edges_from", "add_simplices_from", "alias_add_edges_from") and a.get("fmt") in (2, 4, 5) \
                and a.get("items"):
            if kind == "DH" and a["fmt"] in (2, 4):
                x = EXOTIC_IDS[1 + fault.get("pos", 0) % 2]  # (an iterable there reads as a head)
            items = [list(it) for it in a["items"]]
            items[fault.get("item", 0) % len(items)][1] = x
            a = dict(a, items=items)
            info["exotic"] = [x]
        if "exotic" in info:
            info["relaxed"] = True
        else:
            fault, fk = None, None
    if fk in ("none_member", "unhashable_member", "dying", "empty_in_bulk", "none_node",
              "unhashable_node", "attr_junk"):
        info["relaxed"] = True

    def named(*xs):
        for x in xs:
            try:
                hash(x)
                info["named"].add(x)
            except TypeError:
                pass

    # ------------------------------------------------------------ nodes
    if op == "add_node":
        node, attr = a["node"], _attr(a.get("attr"))
        named(node)
        return (lambda s: s.add_node(node, **attr)), op, {"node": node, "attr": attr}, info
    if op == "add_nodes_from":
        items = [(n, d) for n, d in a["items"]]
        if fk in ("none_node", "unhashable_node") and items:
            i = fault.get("item", 0) % len(items)
            items[i] = (None if fk == "none_node" else [9, 9], items[i][1])
        attr = _attr(a.get("attr"))
        py = [n if d is None else (n, dict(d)) for n, d in items]
        mitems, dying = _dying_prefix(py, fault)
        info["oserror"] = dying
        for n, _ in items:
            named(n)
        st = _stream(py, fault, a.get("stream"))
        return (lambda s: s.add_nodes_from(st, **attr)), op, {"items": mitems, "attr": attr}, info
    if op == "remove_node":
        named(a["n"])
        if kind == "SC":
            return (lambda s: s.remove_node(a["n"])), op, {"n": a["n"]}, info
        if POS:
            return ((lambda s: s.remove_node(a["n"], a["strong"], a["remove_empty"])),
                    op, {"n": a["n"], "strong": a["strong"], "remove_empty": a["remove_empty"]}, info)
        return ((lambda s: s.remove_node(a["n"], strong=a["strong"], remove_empty=a["remove_empty"])),
                op, {"n": a["n"], "strong": a["strong"], "remove_empty": a["remove_empty"]}, info)
    if op == "remove_nodes_from":
        nodes = list(a["nodes"])
        mnodes, dying = _dying_prefix(nodes, fault)
        info["oserror"] = dying
        info["relaxed"] = info["relaxed"] or dying
        named(*nodes)
        st = _stream(nodes, fault, a.get("stream"))
        if kind == "SC":
            return (lambda s: s.remove_nodes_from(st)), op, {"nodes": mnodes}, info
        if POS:
            return ((lambda s: s.remove_nodes_from(st, a["strong"], a["remove_empty"])),
                    op, {"nodes": mnodes, "strong": a["strong"], "remove_empty": a["remove_empty"]}, info)
        return ((lambda s: s.remove_nodes_from(st, strong=a["strong"], remove_empty=a["remove_empty"])),
                op, {"nodes": mnodes, "strong": a["strong"], "remove_empty": a["remove_empty"]}, info)
    if op == "set_node_attributes" or op == "set_edge_attributes":
        values, name = a["values"], a.get("name")
        if isinstance(values, dict):
            named(*values.keys())
        f = op
        return ((lambda s: getattr(s, f)(deepcopy(values), name)) if name is not None
                else (lambda s: getattr(s, f)(deepcopy(values)))), op, {"values": values, "name": name}, info
    if op == "set_net_attr":
        return (lambda s: s.__setitem__(a["key"], deepcopy(a["value"]))), op, {"key": a["key"], "value": a["value"]}, info
    if op == "clear":
        return (lambda s: s.clear(remove_net_attr=a["remove_net_attr"])), op, {"remove_net_attr": a["remove_net_attr"]}, info
    if op == "freeze":
        return (lambda s: s.freeze()), op, {}, info
    if op == "convert_labels_to_integers":
        la = a.get("label_attribute", "label")
        return ((lambda s: s.__class__ and __import__("xgi").convert_labels_to_integers(s, la, in_place=True)),
                op, {"label_attribute": la}, info)
    if op == "largest_connected_hypergraph":
        return ((lambda s: __import__("xgi").largest_connected_hypergraph(s, in_place=True)), op, {}, info)

    # ------------------------------------------------------------ undirected / simplicial
    if kind in ("H", "SC"):
        if op == "random_edge_shuffle":
            e1, e2 = a.get("e1"), a.get("e2")
            named(e1, e2)
            if e1 is None and e2 is None:
                return (lambda s: s.random_edge_shuffle()), op, {}, info
            return (lambda s: s.random_edge_shuffle(e_id1=e1, e_id2=e2)), op, {"e1": e1, "e2": e2}, info
        if op in ("add_edge", "add_simplex", "alias_add_edge"):
            mem = list(a["members"])
            if fk == "none_member":
                mem.insert(fault.get("pos", 0) % (len(mem) + 1), None)
            elif fk == "unhashable_member":
                mem.insert(fault.get("pos", 0) % (len(mem) + 1), [9, 9])
            idx, attr = a.get("idx"), _attr(a.get("attr"))
            named(idx, *mem)
            c = container(mem, a.get("mtype", "list"))
            if op == "add_edge":
                if idx is None:
                    call = lambda s: s.add_edge(c, **attr)
                elif POS:
                    call = lambda s: s.add_edge(c, idx, **attr)
                else:
                    call = lambda s: s.add_edge(c, idx=idx, **attr)
                return call, op, {"members": mem, "idx": idx, "attr": attr}, info
            if op == "add_simplex":
                if idx is None:
                    call = lambda s: s.add_simplex(c, **attr)
                elif POS:
                    call = lambda s: s.add_simplex(c, idx, **attr)
                else:
                    call = lambda s: s.add_simplex(c, idx=idx, **attr)
                return call, op, {"members": mem, "idx": idx, "attr": attr}, info
            return (lambda s: s.add_edge(c, **attr)), op, {"members": mem, "attr": attr}, info
        if op in ("add_edges_from", "add_simplices_from", "alias_add_edges_from"):
            fmt = a["fmt"]
            items = [(list(m), idx, (dict(d) if d is not None else None)) for m, idx, d in a["items"]]
            _apply_member_fault(items, fault)
            if fk == "empty_in_bulk" and items:
                i = fault.get("item", 0) % len(items)
                items[i] = ([], items[i][1], items[i][2])
            items = _norm_items_undirected(fmt, items)
            attr = _attr(a.get("attr"))
            if fk in ("attr_pairs", "attr_junk"):
                if fmt not in (3, 4) or len(items) < 2:
                    fault = None
                    info["relaxed"] = False
                else:
                    fault = dict(fault, item=1 + fault.get("item", 0) % (len(items) - 1))
            bunch = _bunch_undirected(fmt, items, a.get("mtype", "list"), fault, share=bool(a.get("share")),
                                      view_item=a.get("view_item") if fmt != 5 else None,
                                      view_which=a.get("view_which", "view_nodes"))
            mitems, dying = _dying_prefix(items, fault)
            if fault and fault.get("kind") == "attr_junk":
                # the junk payload must be rejected: items before it are applied (relaxed judge)
                mitems = [(m, i2, (d if k != fault["item"] else {"__junk__": [9]})) for k, (m, i2, d) in enumerate(items)]
            if fmt == 5:
                dying, mitems = False, items
                if fk == "dying":
                    info["relaxed"] = False
            info["oserror"] = dying
            for m, idx, _ in items:
                named(idx, *m)
            st = _stream(bunch, fault, a.get("stream"))
            if op == "add_edges_from":
                return (lambda s: s.add_edges_from(st, **attr)), op, {"fmt": fmt, "items": mitems, "attr": attr}, info
            if op == "add_simplices_from":
                mo = a.get("max_order")
                if POS:
                    return ((lambda s: s.add_simplices_from(st, mo, **attr)), op,
                            {"fmt": fmt, "items": mitems, "attr": attr, "max_order": mo}, info)
                return ((lambda s: s.add_simplices_from(st, max_order=mo, **attr)), op,
                        {"fmt": fmt, "items": mitems, "attr": attr, "max_order": mo}, info)
            return (lambda s: s.add_edges_from(st, **attr)), op, {"fmt": fmt, "items": mitems, "attr": attr}, info
        if op in ("add_weighted_edges_from", "add_weighted_simplices_from", "alias_add_weighted_edges_from"):
            items = [(list(m), w) for m, w in a["items"]]
            _apply_member_fault(items, fault)
            weight, attr = a.get("weight", "weight"), _attr(a.get("attr"))
            py = [tuple(m) + (w,) for m, w in items]
            mitems, dying = _dying_prefix(items, fault)
            info["oserror"] = dying
            for m, _ in items:
                named(*m)
            st = _stream(py, fault, a.get("stream"))
            if op == "add_weighted_edges_from":
                if POS:
                    return ((lambda s: s.add_weighted_edges_from(st, weight, **attr)), op,
                            {"items": mitems, "weight": weight, "attr": attr}, info)
                return ((lambda s: s.add_weighted_edges_from(st, weight=weight, **attr)), op,
                        {"items": mitems, "weight": weight, "attr": attr}, info)
            mo = a.get("max_order")
            if op == "add_weighted_simplices_from":
                if POS:
                    return ((lambda s: s.add_weighted_simplices_from(st, mo, weight, **attr)), op,
                            {"items": mitems, "weight": weight, "attr": attr, "max_order": mo}, info)
                return ((lambda s: s.add_weighted_simplices_from(st, max_order=mo, weight=weight, **attr)), op,
                        {"items": mitems, "weight": weight, "attr": attr, "max_order": mo}, info)
            return ((lambda s: s.add_weighted_edges_from(st, max_order=mo, weight=weight, **attr)), op,
                    {"items": mitems, "weight": weight, "attr": attr, "max_order": mo}, info)
        if op == "add_node_to_edge":
            named(a["edge"], a["node"])
            return (lambda s: s.add_node_to_edge(a["edge"], a["node"])), op, {"edge": a["edge"], "node": a["node"]}, info
        if op in ("remove_edge", "remove_simplex_id", "alias_remove_edge"):
            named(a["idx"])
            f = {"remove_edge": "remove_edge", "remove_simplex_id": "remove_simplex_id",
                 "alias_remove_edge": "remove_edge"}[op]
            return (lambda s: getattr(s, f)(a["idx"])), op, {"idx": a["idx"]}, info
        if op in ("remove_edges_from", "remove_simplex_ids_from", "alias_remove_edges_from"):
            eb = list(a["ebunch"])
            meb, dying = _dying_prefix(eb, fault)
            info["oserror"] = dying
            info["relaxed"] = info["relaxed"] or dying
            named(*eb)
            st = _stream(eb, fault, a.get("stream"))
            f = {"remove_edges_from": "remove_edges_from", "remove_simplex_ids_from": "remove_simplex_ids_from",
                 "alias_remove_edges_from": "remove_edges_from"}[op]
            return (lambda s: getattr(s, f)(st)), op, {"ebunch": meb}, info
        if op == "remove_node_from_edge":
            named(a["edge"], a["node"])
            return ((lambda s: s.remove_node_from_edge(a["edge"], a["node"], remove_empty=a["remove_empty"])), op,
                    {"edge": a["edge"], "node": a["node"], "remove_empty": a["remove_empty"]}, info)
        if op == "update":
            edges = None if a.get("edges") is None else [_order_for_sniff(m) if i == 0 else list(m)
                                                       for i, m in enumerate(a["edges"])]
            nodes = None if a.get("nodes") is None else list(a["nodes"])
            if edges:
                for m in edges:
                    named(*m)
            if nodes:
                named(*nodes)
            return (lambda s: s.update(edges=edges, nodes=nodes)), op, {"edges": edges, "nodes": nodes}, info
        if op == "clear_edges":
            return (lambda s: s.clear_edges()), op, {}, info
        if op == "double_edge_swap":
            named(a["n1"], a["n2"], a["e1"], a["e2"])
            return ((lambda s: s.double_edge_swap(a["n1"], a["n2"], a["e1"], a["e2"])), op,
                    {"n1": a["n1"], "n2": a["n2"], "e1": a["e1"], "e2": a["e2"]}, info)
        if op == "merge_duplicate_edges":
            return ((lambda s: s.merge_duplicate_edges(rename=a["rename"], merge_rule=a["merge_rule"],
                                                       multiplicity=a.get("multiplicity"))), op,
                    {"rename": a["rename"], "merge_rule": a["merge_rule"], "multiplicity": a.get("multiplicity")}, info)
        if op == "close":
            return (lambda s: s.close()), op, {}, info
        if op == "cleanup":
            if kind == "H":
                kw = {k: a[k] for k in ("isolates", "singletons", "multiedges", "connected", "relabel")}
            else:
                kw = {k: a[k] for k in ("isolates", "connected", "relabel")}
            if POS:
                vals = list(kw.values())
                return (lambda s: s.cleanup(*vals, True)), op, kw, info
            return (lambda s: s.cleanup(in_place=True, **kw)), op, kw, info

    # ------------------------------------------------------------ directed
    if kind == "DH":
        if op == "add_edge":
            tail, head = list(a["tail"]), list(a["head"])
            if fk in ("none_member", "unhashable_member"):
                side = tail if fault.get("item", 0) % 2 == 0 else head
                side.insert(fault.get("pos", 0) % (len(side) + 1), None if fk == "none_member" else [9, 9])
            idx, attr = a.get("idx"), _attr(a.get("attr"))
            named(idx, *tail, *head)
            mt = a.get("mtype", "list")
            mem = (container(tail, "view_nodes" if a.get("view_side") == "tail" else mt),
                   container(head, "view_nodes" if a.get("view_side") == "head" else mt))
            if a.get("outer", "tuple") == "list":
                mem = list(mem)
            if idx is None:
                call = lambda s: s.add_edge(mem, **attr)
            else:
                call = lambda s: s.add_edge(mem, idx=idx, **attr)
            return call, op, {"tail": tail, "head": head, "idx": idx, "attr": attr}, info
        if op == "add_edges_from":
            fmt = a["fmt"]
            items = []
            for (t, h), idx, d in a["items"]:
                if fmt in (1, 3):
                    idx = None
                if fmt in (1, 2, 5):
                    d = None
                items.append(((list(t), list(h)), idx, (dict(d) if d is not None else None)))
            if fk in ("none_member", "unhashable_member") and items:
                i = fault.get("item", 0) % len(items)
                (t, h), idx, d = items[i]
                side = t if fault.get("pos", 0) % 2 == 0 else h
                side.insert(0, None if fk == "none_member" else [9, 9])
            if fmt == 5:
                dd = {}
                for it in items:
                    dd[it[1]] = it
                items = list(dd.values())
            mt = a.get("mtype", "list")
            pf = None
            if fk in ("attr_pairs", "attr_junk"):
                if fmt in (3, 4) and len(items) >= 2:
                    pf = dict(fault, item=1 + fault.get("item", 0) % (len(items) - 1))
                else:
                    info["relaxed"] = False

            dcache = {}

            def mk(i, t, h, j=None):
                j = i if j is None else j
                m = mt if i > 0 else ("list" if mt == "iter" else mt)
                ct, ch = container(t, m), container(h, m)
                if a.get("view_item") is not None and (j == a["view_item"] and (j >= 1 or fmt == 5)):
                    ch = container(h, "view_nodes")  # the head is the network's own node view
                if a.get("share") and i >= 1 and m != "iter":
                    # equal tails / heads of later items are the *same* object
                    ct = dcache.setdefault((m, repr(t)), ct)
                    ch = dcache.setdefault((m, repr(h)), ch)
                return (ct, ch)

            if fmt == 1:
                bunch = [mk(i, t, h) for i, ((t, h), _, _) in enumerate(items)]
            elif fmt == 2:
                bunch = [(mk(i, t, h), idx) for i, ((t, h), idx, _) in enumerate(items)]
            elif fmt == 3:
                bunch = [(mk(i, t, h), _payload(i, d, pf)) for i, ((t, h), _, d) in enumerate(items)]
            elif fmt == 4:
                bunch = [(mk(i, t, h), idx, _payload(i, d, pf)) for i, ((t, h), idx, d) in enumerate(items)]
            else:
                bunch = {idx: mk(1, t, h, j) for j, ((t, h), idx, _) in enumerate(items)}
            attr = _attr(a.get("attr"))
            mitems, dying = _dying_prefix(items, fault)
            if fmt == 5:
                dying, mitems = False, items
                if fk == "dying":
                    info["relaxed"] = False
            info["oserror"] = dying
            for (t, h), idx, _ in items:
                named(idx, *t, *h)
            st = _stream(bunch, fault, a.get("stream"))
            return (lambda s: s.add_edges_from(st, **attr)), op, {"fmt": fmt, "items": mitems, "attr": attr}, info
        if op == "add_node_to_edge":
            named(a["edge"], a["node"])
            return ((lambda s: s.add_node_to_edge(a["edge"], a["node"], a["direction"])), op,
                    {"edge": a["edge"], "node": a["node"], "direction": a["direction"]}, info)
        if op == "remove_edge":
            named(a["idx"])
            return (lambda s: s.remove_edge(a["idx"])), op, {"idx": a["idx"]}, info
        if op == "remove_edges_from":
            eb = list(a["ebunch"])
            meb, dying = _dying_prefix(eb, fault)
            info["oserror"] = dying
            info["relaxed"] = info["relaxed"] or dying
            named(*eb)
            st = _stream(eb, fault, a.get("stream"))
            return (lambda s: s.remove_edges_from(st)), op, {"ebunch": meb}, info
        if op == "remove_node_from_edge":
            named(a["edge"], a["node"])
            return ((lambda s: s.remove_node_from_edge(a["edge"], a["node"], a["direction"],
                                                       remove_empty=a["remove_empty"])), op,
                    {"edge": a["edge"], "node": a["node"], "direction": a["direction"],
                     "remove_empty": a["remove_empty"]}, info)
        if op == "cleanup":
            kw = {k: a[k] for k in ("isolates", "relabel")}
            return (lambda s: s.cleanup(in_place=True, **kw)), op, kw, info
    raise HarnessError(f"no builder for {kind}.{op}")


# ---------------------------------------------------------------------------
def _fresh_factory(pre, post, kind):
    pre_ids = set(pre["edges"])
    new_ids = [e for e in post["edges"] if e not in pre_ids]

    def factory():
        claimed = set()

        def fresh(hint=None):
            for e in new_ids:
                if e in claimed:
                    continue
                if hint is not None:
                    m = post["members"][e]
                    if kind == "DH":
                        ok = set(m[0]) == set(hint[0]) and set(m[1]) == set(hint[1])
                    else:
                        ok = set(m) == set(hint)
                    if not ok:
                        continue
                claimed.add(e)
                return e
            raise M.NoFresh()

        return fresh

    return factory, new_ids


def run_model_alternatives(model, mop, margs, factory):
    """Yields (model_copy, exp, reject, nofresh) for every combination of model choices."""
    pending = [[]]
    while pending:
        seq = pending.pop(0)
        m = model.copy()
        m._choice_seq = list(seq)
        m._choice_made = []
        m._choice_ns = []
        nofresh = False
        try:
            exp, rej = m.step(mop, deepcopy(margs), factory())
        except M.NoFresh:
            exp, rej, nofresh = None, None, True
        yield m, exp, rej, nofresh
        made, ns = m._choice_made, m._choice_ns
        for i in range(len(seq), len(ns)):
            for c in range(1, ns[i]):
                pending.append(made[:i] + [c])


def _choose(self, n):
    i = len(self._choice_made)
    c = self._choice_seq[i] if i < len(self._choice_seq) else 0
    if c >= n:
        c = 0
    self._choice_made.append(c)
    self._choice_ns.append(n)
    return c


M.BaseModel.choose = _choose
M.BaseModel._choice_seq = []
M.BaseModel._choice_made = []
M.BaseModel._choice_ns = []


def check_all_actors(world, rec, skip=None):
    """After every step: re-observe every *other* actor and compare with its own model
    (this is how aliasing between live objects is seen)."""
    for name, act in list(world.actors.items()):
        if name == skip:
            continue
        snap, anomalies = snapshot(act.sut)
        bad = [(a[0], f"{a[1]!r} {a[2]}") for a in anomalies] + integrity(snap)
        for clause, detail in bad:
            world.find({"C06"} if clause.endswith("view_not_live") else {INTEGRITY_PROP[act.kind], "C07"},
                       "bystander_" + clause, rec, act.kind,
                       f"actor {name} (not the target of this step): {detail}")
        diffs = compare(snap, act.model)
        for clause, detail in diffs:
            world.find({"C07", "C08"}, "bystander_" + clause, rec, act.kind,
                       f"actor {name} changed although the step targeted {rec.get('actor')}: {detail}")
        act.snap = snap
        if diffs or bad:
            return False
    for name, act in list(world.actors.items()):
        try:
            fz = bool(act.sut.is_frozen)
        except Exception as ex:  # noqa
            fz = repr(ex)
        if fz != act.model.frozen:
            world.find({"C18"}, "is_frozen_wrong", rec, act.kind, f"actor {name}: is_frozen={fz!r}, expected {act.model.frozen}")
            return False
    return True


class ArgRecorder:
    """Forwards method calls to the real object and remembers the argument objects, so that
    they can be changed *after* the call: a network that stored a caller's list / dict / set by
    reference instead of copying it changes with them."""

    def __init__(self, obj):
        object.__setattr__(self, "_o", obj)
        object.__setattr__(self, "captured", [])

    def __getattr__(self, name):
        attr = getattr(self._o, name)
        if callable(attr):
            def wrapper(*a, **k):
                self.captured.append((a, k))
                return attr(*a, **k)
            return wrapper
        return attr

    def __setitem__(self, k, v):
        self._o[k] = v


POISON = "__poison__"


def poison_args(x, depth=0):
    """mutate caller-owned containers: members lists / sets get a new element, attribute dicts a
    new key; values *inside* attribute dicts are left alone (xgi documents shallow updates)"""
    n = 0
    if depth > 3:
        return 0
    if isinstance(x, dict):
        try:
            for k, v in list(x.items()):
                if isinstance(v, (list, set, tuple)) and not isinstance(k, str):
                    n += poison_args(v, depth + 1)  # {edge_id: members}
            x[POISON] = 1
            n += 1
        except Exception:
            pass
    elif isinstance(x, list):
        for el in list(x):
            if isinstance(el, (list, dict, set, tuple)):
                n += poison_args(el, depth + 1)
        x.append(POISON)
        n += 1
    elif isinstance(x, set):
        x.add(POISON)
        n += 1
    elif isinstance(x, tuple):
        for el in x:
            if isinstance(el, (list, dict, set, tuple)):
                n += poison_args(el, depth + 1)
    return n


NOT_METHOD_OPS = {"convert_labels_to_integers", "largest_connected_hypergraph", "set_net_attr"}


def exec_mutation(world, actor, rec):
    xgi = world.xgi
    cfg = world.cfg
    op = rec["op"]
    fault = rec.get("fault")
    a = {k: dec(v) for k, v in rec["args"].items()}
    call, mop, margs, info = build(actor.kind, op, a, fault)
    # the SUT's argument objects are changed after the call (poison_args); and the model's labels are
    # equal to the SUT's but not the same objects (queries built from model labels then never
    # hand xgi the very object it stores)
    margs = refresh(margs)
    pre = actor.snap
    iprop = INTEGRITY_PROP[actor.kind]
    world.stats["op:" + actor.kind + "." + op] += 1
    if fault:
        world.stats["fault_configured:" + fault["kind"]] += 1
    if actor.model.frozen and op in actor.model.STRUCTURAL:
        world.probes["mutation_attempt_on_frozen:" + actor.kind + "." + op] += 1

    # random state for ops that draw from the global generators: derived from the step uid
    if op in ("random_edge_shuffle",):
        import random as _r
        _r.seed(rec["uid"] * 7919 + 13)

    exc = None
    from . import streams as _streams
    _streams.CURRENT["sut"] = actor.sut
    with warnings.catch_warnings(record=True) as wl:
        warnings.simplefilter("always")
        recorder = ArgRecorder(actor.sut) if op not in NOT_METHOD_OPS else None
        try:
            call(recorder if recorder is not None else actor.sut)
        except Exception as ex:  # noqa
            exc = ex
    warns = real_warnings(wl)
    actor.last_raised = exc is not None  # (the scheduler biases the next step on this actor)
    world.last_exc = exc
    post, anomalies = snapshot(actor.sut)
    if recorder is not None and recorder.captured and exc is None:
        npois = sum(poison_args(a_) + poison_args(k_) for a_, k_ in recorder.captured)
        if npois:
            again, _ = snapshot(actor.sut)
            world.stats["caller_arguments_poisoned_after_call"] += npois
            if digest_form(again) != digest_form(post):
                broken = integrity(again)
                world.find({"C05"} | ({iprop} if broken else set()), "caller_argument_aliased", rec, actor.kind,
                           (f"[and the incidence is no longer two-way: {broken[0][0]} {broken[0][1]}] " if broken else "") +
                           "changing the caller's own argument objects after the call returned changed the "
                           f"network: {digest_form(post)!r} -> {digest_form(again)!r}"[:700])
                actor.snap = again
                actor.model = M.model_from_snapshot(actor.kind, again, frozen=actor.model.frozen) \
                    if not integrity(again) else actor.model
                return False
    outcome = "ok" if exc is None else ("lib" if is_lib_exc(xgi, exc) else type(exc).__name__)
    world.logev("step", rec["uid"], actor.name, op, (fault or {}).get("kind"), outcome, digest_form(post))
    if fault and fault["kind"] == "dying":
        if isinstance(exc, StreamDied):
            world.stats["fault_fired:dying"] += 1
    elif fault:
        world.stats["fault_fired:" + fault["kind"]] += 1
    world.stats["outcome:" + ("ok" if exc is None else "raise")] += 1

    # ---- integrity invariants (whether the call returned or raised) ----
    bad = [(x[0], f"{x[1]!r} {x[2]}") for x in anomalies] + integrity(post)
    if actor.kind == "SC" and cfg.get("sc_invariants", True) and (op in SC_OWN):
        sc_bad = simplicial_invariants(post)
        was_dirty = getattr(actor, "sc_dirty", False)
        if exc is None and not getattr(actor, "sc_dirty", False):
            bad += sc_bad
        else:
            # C03 is stated for the complex after its calls; after a call that *raised* only
            # two-way consistency and non-emptiness are demanded (DESIGN C03).  A bulk add that
            # was rejected half-way has not added the faces of the accepted prefix yet, so the
            # closure clauses stay off for this actor until close()/clear() returns.
            bad += [b for b in sc_bad if b[0] == "empty_simplex"]
            if exc is not None and any(b[0] != "empty_simplex" for b in sc_bad):
                actor.sc_dirty = True
                world.stats["sc_closure_suspended_after_raise"] += 1
            if exc is None and op in ("close", "clear") or not sc_bad:
                actor.sc_dirty = False
    extra_tags = set()
    if bad and op in ADD_OPS and op != "add_node_to_edge":
        # C04, stated independently of everything else: an addition never alters an existing edge
        try:
            if any(e in post["members"] and not eqm(pre["members"][e], post["members"][e]) for e in pre["edges"]):
                extra_tags.add("C04")
        except Exception:
            pass
    for clause, detail in bad:
        # (a state that breaks the incidence invariants cannot equal any state of the reference
        # model either, so the refinement property C05 is violated by the same step)
        world.find({"C06"} if clause.endswith("view_not_live") else {iprop, "C05"} | extra_tags, clause, rec, actor.kind,
                   f"after {'raising ' + type(exc).__name__ if exc else 'returning'}: {detail}"
                   + (" [an existing edge was altered by the addition]" if extra_tags else ""))
    if bad:
        actor.snap = post
        return False

    if cfg.get("counts", False):
        for clause, detail in counts_consistent(actor.sut, post):
            world.find({"C06", iprop}, clause, rec, actor.kind, detail)

    if actor.kind == "SC" and (getattr(actor, "sc_dirty", False) or locals().get("was_dirty")
                               or not actor.model.is_closed()) and not actor.model.frozen and op in (
            "convert_labels_to_integers", "cleanup", "close"):
        # rebuilding a complex whose closure was left incomplete by an earlier *raising* call (or
        # by an inherited Hypergraph mutator, C18 world) re-adds the missing faces / drops the
        # duplicates: the documentation does not say which IDs they get
        world.stats["sc_rebuild_adopted"] += 1
        actor.model = M.model_from_snapshot(actor.kind, post, frozen=actor.model.frozen)
        actor.snap = post
        actor.muts += 1
        return True

    if op == "random_edge_shuffle":
        ok = judge_shuffle(world, actor, rec, pre, post, exc, a)
        actor.model = M.model_from_snapshot(actor.kind, post, frozen=actor.model.frozen)
        actor.snap = post
        actor.muts += 1
        world.note_state(actor)
        return ok

    if actor.model.frozen and op in actor.model.STRUCTURAL:
        if actor.kind == "SC" and op == "close" and not actor.model.is_closed():
            world.probes["close_on_frozen_complex_that_is_not_closed"] += 1
        ok = judge_frozen(world, actor, rec, pre, post, exc, mop, margs)
        actor.model = M.model_from_snapshot(actor.kind, post, frozen=True)
        actor.snap = post
        return ok

    # ---- reference model ----
    factory, new_ids = _fresh_factory(pre, post, actor.kind)
    relaxed = info["relaxed"]
    best = None
    accepted = None
    for m, exp, rej, nofresh in run_model_alternatives(actor.model, mop, margs, factory):
        problems = []
        if nofresh:
            problems.append(("missing_new_edge", "the documentation says an edge with a new automatic ID "
                             f"is created; new IDs seen: {new_ids!r}"))
        elif info["oserror"] and rej is None:
            # the stream died after the prefix: the OSError must propagate
            if not isinstance(exc, StreamDied):
                problems.append(("stream_error_swallowed", f"outcome {outcome}"))
            problems += compare(post, m, exp, check_order=cfg.get("order", True))
        elif rej is not None:
            if exc is None:
                problems.append(("accepted_invalid_call", f"expected {rej.kind} ({rej.why}), call returned"))
            elif rej.kind == "LIB" and not is_lib_exc(xgi, exc):
                problems.append(("wrong_error_type", f"expected an xgi.exception class ({rej.why}), got "
                                 f"{type(exc).__name__}: {exc}"))
            problems += compare(post, m, None, check_order=cfg.get("order", True))
        else:
            if exc is not None:
                problems.append(("unexpected_exception", f"{type(exc).__name__}: {exc}"))
            else:
                if exp.warn and not warns:
                    problems.append(("refused_without_warning", "a refusal / skipped ID must be "
                                     "reported with a warning"))
            problems += compare(post, m, exp, check_order=cfg.get("order", True))
        if not problems:
            accepted = (m, exp, rej)
            break
        # keep the most plausible alternative for reporting
        same_type = (rej is not None) == (exc is not None)
        if best is None or (same_type and not best[3]):
            best = (m, exp, rej, same_type, problems)

    ok = True
    if accepted is None:
        m, exp, rej, _, problems = best
        if relaxed:
            ok = judge_relaxed(world, actor, rec, pre, post, exc, info, m, rej, problems)
        else:
            for clause, detail in problems:
                props = {"C05"}
                if op in ADD_OPS:
                    if clause in ("missing_new_edge", "refused_without_warning"):
                        props.add("C04")
                    if clause in ("members", "edge_attrs", "edge_set"):
                        props.add("C04")
                if op in ("cleanup", "convert_labels_to_integers", "largest_connected_hypergraph"):
                    props.add("C19")  # in-place variants of the derived networks of C19
                if op == "merge_duplicate_edges" and clause in ("missing_new_edge", "edge_set") and \
                        a.get("rename") == "new":
                    props.add("C04")  # the merged edge is given an *automatic* ID
                if actor.kind == "SC" and exc is None and clause in ("edge_set", "members", "missing_new_edge"):
                    props.add("C03")
                if rej is not None and rej.why == "frozen" or actor.model.frozen:
                    props = {"C18"}
                if clause == "node_order" or clause == "edge_order":
                    props = {"C06", "C05"}
                world.find(props, clause, rec, actor.kind, detail)
            ok = False
        # resynchronise the model from the SUT (coherent: integrity held)
        actor.model = M.model_from_snapshot(actor.kind, post, frozen=actor.model.frozen or
                                            (op == "freeze" and exc is None))
    else:
        m, exp, rej = accepted
        if set(m.nodes) == set(post["nodes"]) and set(m.edges) == set(post["edges"]):
            adopt_order(m, post)
        actor.model = m
    if info.get("exotic"):
        # the ID is not representable in a replay file: take the edge out again through the public
        # API (judged like any state: integrity), adopt what is left
        world.stats["fault_fired:exotic_id" + ("" if exc is None else ":raised")] += 1
        try:
            for x in info["exotic"]:
                if any(x is e or (type(x) is type(e) and x == e) for e in list(actor.sut.edges)):
                    with warnings.catch_warnings():
                        warnings.simplefilter("ignore")
                        (actor.sut.remove_simplex_id if actor.kind == "SC" else actor.sut.remove_edge)(x)
            post, anomalies2 = snapshot(actor.sut)
            bad2 = [(x[0], f"{x[1]!r} {x[2]}") for x in anomalies2] + integrity(post)
        except Exception as ex:  # noqa
            bad2 = [("exotic_edge_not_removable", f"{type(ex).__name__}: {ex}")]
        for clause, detail in bad2:
            world.find({iprop, "C05"}, clause, rec, actor.kind, f"after removing the edge stored by the raising call: {detail}")
            ok = False
        if bad2:
            actor.snap = post
            return False
        actor.model = M.model_from_snapshot(actor.kind, post, frozen=actor.model.frozen)
    # C03: has_simplex answers membership exactly (present simplices, and absent node sets drawn
    # deterministically from the current nodes)
    if actor.kind == "SC" and exc is None and ok and cfg.get("sc_invariants", True) and op in SC_OWN:
        present = {frozenset(post["members"][e]) for e in post["edges"]}
        probes = [csort(mm) for mm in list(present)[:8]]
        nodes = post["nodes"]
        k = rec.get("uid", 0)
        for j in range(4):
            size = 1 + (k + j) % 3
            if len(nodes) >= size:
                start = (k * 7 + j * 3) % len(nodes)
                cand = [nodes[(start + t * (1 + j % 2)) % len(nodes)] for t in range(size)]
                if len(set(cand)) == size:
                    probes.append(cand)
        probes.append([])
        shapes = [list, tuple, set, frozenset, iter, (lambda c: (x for x in c)), list, tuple]
        for pi, cand in enumerate(probes):
            try:
                # the argument in every container shape a caller may use, one-shot iterators
                # included (the stream seam applies to queries as well)
                arg = shapes[(k + pi) % len(shapes)](cand)
                got = bool(actor.sut.has_simplex(arg))
            except Exception as ex:  # noqa
                world.find({"C03"}, "has_simplex_raised", rec, actor.kind, f"{cand!r}: {type(ex).__name__}: {ex}")
                ok = False
                break
            want = frozenset(cand) in present
            if got != want:
                world.find({"C03"}, "has_simplex_wrong", rec, actor.kind,
                           f"has_simplex({cand!r} as {type(arg).__name__}) = {got}, but the node set is "
                           f"{'a' if want else 'not a'} simplex")
                ok = False
                break
        world.stats["has_simplex_probes"] += len(probes)

    # C04 oracle, stated independently of the model: additions never alter existing edges
    if op in ADD_OPS and not relaxed:
        for e in pre["edges"]:
            if e not in post["members"]:
                world.find({"C04"}, "existing_edge_removed_by_add", rec, actor.kind, f"edge {e!r}")
                ok = False
            else:
                if not eqm(pre["members"][e], post["members"][e]) and op != "add_node_to_edge":
                    world.find({"C04"}, "existing_edge_altered_by_add", rec, actor.kind,
                               f"edge {e!r}: {canon(pre['members'][e])!r} -> {canon(post['members'][e])!r}")
                    ok = False
                if pre["eattr"][e] != post["eattr"][e]:
                    world.find({"C04"}, "existing_edge_attrs_altered_by_add", rec, actor.kind, f"edge {e!r}")
                    ok = False
    actor.snap = post
    actor.muts += 1
    world.note_state(actor)
    return ok


def judge_relaxed(world, actor, rec, pre, post, exc, info, m, rej, problems):
    """Narrow relaxation after a poisoned / dying input stream (DESIGN section 3):
    integrity already held; nothing outside the IDs named by the call changed; the error
    type is the demanded one.  The model is then re-synchronised by the caller."""
    xgi = world.xgi
    ok = True
    fk = rec["fault"]["kind"]
    if exc is None and fk in ("none_member", "none_node", "dying"):
        if fk == "dying" and not info["oserror"]:
            pass
        else:
            world.find({"C05"}, "fault_swallowed", rec, actor.kind, f"call returned although its input {fk}")
            ok = False
    if exc is not None and fk in ("none_member", "none_node") and not is_lib_exc(xgi, exc):
        world.find({"C05"}, "wrong_error_type", rec, actor.kind,
                   f"None as an ID must raise the library's error, got {type(exc).__name__}: {exc}")
        ok = False
    if fk == "dying" and info["oserror"] and exc is not None and not isinstance(exc, StreamDied):
        # another element of the call was rejected first: fine
        pass
    named = info["named"]
    pre_e, post_e = set(pre["edges"]), set(post["edges"])
    kind = actor.kind

    def mem_all(snap, e):
        v = snap["members"][e]
        return (set(v[0]) | set(v[1])) if kind == "DH" else set(v)

    removing = rec["op"].startswith("remove") or rec["op"].startswith("alias_remove")
    for e in pre["edges"]:
        if e in named:
            continue
        if e not in post_e:
            if removing or (kind == "SC"):
                continue
            world.find({"C05"}, "unrelated_edge_removed_after_fault", rec, kind, f"edge {e!r}")
            ok = False
            continue
        if removing:
            continue
        if not eqm(pre["members"][e], post["members"][e]):
            world.find({"C05"}, "unrelated_edge_changed_after_fault", rec, kind, f"edge {e!r}")
            ok = False
        if pre["eattr"][e] != post["eattr"][e]:
            world.find({"C05"}, "unrelated_edge_attrs_changed_after_fault", rec, kind, f"edge {e!r}")
            ok = False
    for n in pre["nodes"]:
        if n in named:
            continue
        if n not in post["nattr"]:
            world.find({"C05"}, "unrelated_node_removed_after_fault", rec, kind, f"node {n!r}")
            ok = False
        elif pre["nattr"][n] != post["nattr"][n]:
            world.find({"C05"}, "unrelated_node_attrs_changed_after_fault", rec, kind, f"node {n!r}")
            ok = False
    return ok


def judge_shuffle(world, actor, rec, pre, post, exc, a):
    """random_edge_shuffle is judged by its invariants, then adopted (DESIGN C05)."""
    xgi = world.xgi
    kind = actor.kind
    ok = True
    frozen = actor.model.frozen
    props = {"C18"} if frozen else {"C05"}

    def same_state():
        return (pre["nodes"] == post["nodes"] and pre["edges"] == post["edges"]
                and all(eqm(pre["members"][e], post["members"][e]) for e in pre["edges"]) and pre["eattr"] == post["eattr"]
                and pre["nattr"] == post["nattr"])

    if frozen:
        e1, e2 = a.get("e1"), a.get("e2")
        if e1 is None or e2 is None:
            pairs = [(x, y) for x in pre["edges"] for y in pre["edges"] if x != y]
        else:
            pairs = [(e1, e2)] if e1 in pre["members"] and e2 in pre["members"] and e1 != e2 else []
        could = any(set(pre["members"][x]) - set(pre["members"][y]) and
                    set(pre["members"][y]) - set(pre["members"][x]) for x, y in pairs)
        if not same_state():
            world.find({"C18"}, "frozen_network_modified", rec, kind,
                       "random_edge_shuffle changed a frozen network "
                       f"({'returned' if exc is None else 'raised ' + type(exc).__name__})")
            return False
        if could:
            world.probes["frozen_rejection_checked:" + kind + ".random_edge_shuffle"] += 1
            if exc is None or not is_lib_exc(xgi, exc):
                world.find({"C18"}, "frozen_call_not_rejected", rec, kind,
                           "random_edge_shuffle can rewire this frozen network but "
                           f"{'returned normally' if exc is None else 'raised ' + type(exc).__name__}")
                return False
        return True
    if exc is not None:
        if not same_state():
            world.find(props, "state_changed_by_rejected_call", rec, kind, f"{type(exc).__name__}: {exc}")
            ok = False
        e1, e2 = a.get("e1"), a.get("e2")
        missing = [e for e in (e1, e2) if e is not None and e not in pre["members"]]
        if len(pre["edges"]) >= 2 and missing and not is_lib_exc(xgi, exc):
            world.find(props, "wrong_error_type", rec, kind,
                       f"missing edge ID {missing!r} must raise the library's error, got {type(exc).__name__}")
            ok = False
        if len(pre["edges"]) >= 2 and not missing and e1 is not None and e2 is not None:
            world.find(props, "unexpected_exception", rec, kind, f"{type(exc).__name__}: {exc}")
            ok = False
        return ok
    # returned: degrees, sizes, IDs, attrs, union multiset of the changed edges, the rest untouched
    if pre["nodes"] != post["nodes"] or pre["edges"] != post["edges"]:
        world.find(props, "shuffle_changed_ids", rec, kind, "")
        return False
    if pre["eattr"] != post["eattr"] or pre["nattr"] != post["nattr"] or pre["net"] != post["net"]:
        world.find(props, "shuffle_changed_attrs", rec, kind, "")
        ok = False
    changed = [e for e in pre["edges"] if set(pre["members"][e]) != set(post["members"][e])]
    for e in pre["edges"]:
        if len(pre["members"][e]) != len(post["members"][e]):
            world.find(props, "shuffle_changed_edge_size", rec, kind, f"edge {e!r}")
            ok = False
    for n in pre["nodes"]:
        if len(pre["memberships"][n]) != len(post["memberships"][n]):
            world.find(props, "shuffle_changed_degree", rec, kind, f"node {n!r}")
            ok = False
    if len(changed) > 2:
        world.find(props, "shuffle_touched_other_edges", rec, kind, repr(changed))
        ok = False
    e1, e2 = a.get("e1"), a.get("e2")
    if e1 is not None and e2 is not None:
        for e in changed:
            if e not in (e1, e2):
                world.find(props, "shuffle_touched_other_edges", rec, kind, repr(e))
                ok = False
    if len(changed) == 2:
        # (compared by equality, not by repr: the labels 4 and 4.0 are the same node)
        before = Counter(list(pre["members"][changed[0]]) + list(pre["members"][changed[1]]))
        after = Counter(list(post["members"][changed[0]]) + list(post["members"][changed[1]]))
        if before != after:
            world.find(props, "shuffle_changed_union", rec, kind, repr(changed))
            ok = False
    elif len(changed) == 1:
        world.find(props, "shuffle_changed_union", rec, kind, repr(changed))
        ok = False
    return ok


def structure_of(snap):
    return (list(snap["nodes"]), list(snap["edges"]), [canon(snap["members"][e]) for e in snap["edges"]])


def judge_frozen(world, actor, rec, pre, post, exc, mop, margs):
    """C18: on a frozen network a call that *would* change the structure of an unfrozen copy
    must raise the library's error and leave the network unchanged; any other call must at
    least leave the structure alone."""
    xgi = world.xgi
    kind = actor.kind
    # would the documented effect change the structure?
    m = actor.model.copy()
    m.frozen = False
    m._choice_seq, m._choice_made, m._choice_ns = [], [], []
    before = (list(m.nodes), list(m.edges), [canon(m.edges[e]) for e in m.edges])
    n_auto = [0]

    def fresh(hint=None):
        n_auto[0] += 1
        return ("__auto__", n_auto[0])

    try:
        m.step(mop, deepcopy(margs), fresh)
    except M.NoFresh:
        pass
    after = (list(m.nodes), list(m.edges), [canon(m.edges[e]) for e in m.edges])
    would_change = before != after
    changed = structure_of(pre) != structure_of(post)
    ok = True
    if not changed and (pre["nattr"] != post["nattr"] or pre["eattr"] != post["eattr"] or pre["net"] != post["net"]):
        # "leaves the network unchanged": a structural mutator that is rejected must not have
        # written attributes on its way to the error either
        what = [k for k in ("nattr", "eattr", "net") if pre[k] != post[k]]
        world.find({"C18"}, "frozen_network_attributes_modified", rec, kind,
                   f"{rec['op']} ({'returned' if exc is None else 'raised ' + type(exc).__name__}) changed {what} of a "
                   f"frozen network: " + "; ".join(f"{k}: {pre[k]!r} -> {post[k]!r}" for k in what)[:500])
        ok = False
    if changed:
        world.find({"C18"}, "frozen_network_modified", rec, kind,
                   f"{rec['op']} changed the structure of a frozen network "
                   f"({'returned' if exc is None else 'raised ' + type(exc).__name__})")
        ok = False
    elif would_change:
        world.probes["frozen_rejection_checked:" + kind + "." + rec["op"]] += 1
        if exc is None:
            world.find({"C18"}, "frozen_call_not_rejected", rec, kind,
                       f"{rec['op']} would modify an unfrozen copy but returned normally on the frozen network")
            ok = False
        elif not is_lib_exc(xgi, exc):
            world.find({"C18"}, "frozen_wrong_error_type", rec, kind, f"{type(exc).__name__}: {exc}")
            ok = False
    return ok
