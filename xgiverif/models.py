"""Executable reference models: direct transcriptions of the xgi documentation.

Three tiny specs (Hypergraph, DiHypergraph, SimplicialComplex).  State:

    nodes : dict  label -> attr dict            (insertion ordered)
    edges : dict  id    -> set(members)         (H, SC)   |  (set(tail), set(head))  (DH)
    eattr : dict  id    -> attr dict
    net   : dict  network attributes
    frozen: bool

Every transition mutates the model in place and returns an Exp (expected outcome); a
transition that must be rejected raises Reject(kind) *after* applying the documented
prefix.  Automatic IDs are never predicted: `fresh()` adopts the ID chosen by the SUT
(the caller checks that it was absent before the call).
"""

from copy import deepcopy
from itertools import combinations

from .labels import csort


class Reject(Exception):
    """The documented outcome is an exception.  kind: 'LIB' (class from xgi.exception)
    or 'ANY' (any exception)."""

    def __init__(self, kind, why=""):
        super().__init__(kind, why)
        self.kind = kind
        self.why = why


class NoFresh(Exception):
    """The model needed a new automatic ID but the SUT created no (more) new edge."""


class Exp:
    """Expected outcome of a returned call."""

    def __init__(self, warn=False, edges_order_free=False, nodes_order_free=False,
                 maybe_raise=None, note=""):
        self.warn = warn  # at least one (non-deprecation) warning is required
        self.edges_order_free = edges_order_free
        self.nodes_order_free = nodes_order_free
        self.maybe_raise = maybe_raise  # None | 'LIB' | 'ANY': raising w/o change is also fine
        self.note = note
        self.node_groups = []  # list of sets of new node labels whose relative order is free


def orderable(ids):
    try:
        sorted(ids)
        return True
    except Exception:  # TypeError, or numpy's ValueError when a numpy int meets a tuple
        return False


def hashable(v):
    try:
        hash(v)
        return True
    except TypeError:
        return False


class BaseModel:
    kind = None

    def __init__(self):
        self.nodes = {}
        self.edges = {}
        self.eattr = {}
        self.net = {}
        self.frozen = False
        self._fresh = None
        self._groups = []

    # ---- infrastructure -------------------------------------------------
    def copy(self):
        m = type(self)()
        m.nodes = {n: deepcopy(a) for n, a in self.nodes.items()}
        m.edges = {e: self._copy_members(v) for e, v in self.edges.items()}
        m.eattr = {e: deepcopy(a) for e, a in self.eattr.items()}
        m.net = deepcopy(self.net)
        m.frozen = self.frozen
        return m

    def _copy_members(self, v):
        return set(v)

    def fresh(self, hint=None):
        if self._fresh is None:
            raise NoFresh()
        return self._fresh(hint)

    def snapshot(self):
        return {
            "nodes": list(self.nodes),
            "edges": list(self.edges),
            "members": {e: self._copy_members(v) for e, v in self.edges.items()},
            "nattr": {n: a for n, a in self.nodes.items()},
            "eattr": {e: a for e, a in self.eattr.items()},
            "net": self.net,
        }

    def step(self, op, args, fresh=None):
        """Apply `op`; returns (exp, reject) where exactly one is not None... except
        that a Reject carries the prefix state already applied to self."""
        self._fresh = fresh
        self._groups = []
        try:
            if self.frozen and op in self.STRUCTURAL:
                raise Reject("LIB", "frozen")
            before_nodes = set(self.nodes)
            exp = getattr(self, "do_" + op)(**args)
            if exp is None:
                exp = Exp()
            if self.kind == "SC":
                # a simplicial complex creates the nodes of one call in an unspecified order
                # (nodes of simplices cut by max_order appear when the faces are added)
                self._groups = [set(self.nodes) - before_nodes]
            exp.node_groups = self._groups
            return exp, None
        except Reject as r:
            return None, r
        finally:
            self._fresh = None

    # ---- shared node operations ---------------------------------------
    def _new_node_record(self):
        return {}

    def _mk_nodes(self, members):
        """Implicitly create the missing nodes of one edge (their relative order is free)."""
        new = []
        for n in csort(members):
            if n not in self.nodes:
                self.nodes[n] = {}
                new.append(n)
        if len(new) > 1:
            self._groups.append(set(new))

    def do_add_node(self, node, attr):
        if node is None:
            raise Reject("LIB", "None node")
        if not hashable(node):
            raise Reject("ANY", "unhashable node")
        if node not in self.nodes:
            self.nodes[node] = {}
        self.nodes[node].update(attr)

    def do_add_nodes_from(self, items, attr):
        for it in items:
            if isinstance(it, tuple) and len(it) == 2 and isinstance(it[1], dict):
                n, d = it
            else:
                n, d = it, {}
            if n is None:
                raise Reject("LIB", "None node")
            if not hashable(n):
                raise Reject("ANY", "unhashable node")
            if n not in self.nodes:
                self.nodes[n] = {}
            self.nodes[n].update(attr)
            self.nodes[n].update(d)

    def do_set_net_attr(self, key, value):
        self.net[key] = value

    def do_set_node_attributes(self, values, name):
        return self._set_attrs(self.nodes, values, name, node_side=True)

    def do_set_edge_attributes(self, values, name):
        return self._set_attrs(self.eattr, values, name, node_side=False)

    def _set_attrs(self, table, values, name, node_side):
        warn = False
        if name is not None:
            if isinstance(values, dict):
                for i, v in values.items():
                    if i in table:
                        table[i][name] = v
                    else:
                        warn = True
            else:
                for i in table:
                    table[i][name] = values
        else:
            if not isinstance(values, dict):
                raise Reject("LIB", "no name and not a dict of dicts")
            for i, d in values.items():
                if i in table:
                    if not isinstance(d, dict):
                        raise Reject("ANY", "inner value is not a dict")
                    table[i].update(d)
                else:
                    warn = True
        return Exp(warn=warn)

    def do_clear(self, remove_net_attr):
        self.nodes.clear()
        self.edges.clear()
        self.eattr.clear()
        if remove_net_attr:
            self.net.clear()

    def do_freeze(self):
        self.frozen = True

    # ---- helpers used by several classes -------------------------------
    def all_members(self, e):
        return set(self.edges[e])

    def memberships(self, n):
        return {e for e in self.edges if n in self.all_members(e)}

    def neighbors(self, n):
        out = set()
        for e in self.edges:
            mem = self.all_members(e)
            if n in mem:
                out |= mem
        out.discard(n)
        return out

    def components(self):
        seen = set()
        comps = []
        for v in self.nodes:
            if v in seen:
                continue
            comp = set()
            stack = [v]
            while stack:
                x = stack.pop()
                if x in comp:
                    continue
                comp.add(x)
                stack.extend(self.neighbors(x) - comp)
            seen |= comp
            comps.append(comp)
        return comps

    def relabel(self, label_attribute):
        node_map = {n: i for i, n in enumerate(self.nodes)}
        edge_map = {e: i for i, e in enumerate(self.edges)}
        new_nodes = {}
        for n, i in node_map.items():
            a = deepcopy(self.nodes[n])
            a[label_attribute] = n
            new_nodes[i] = a
        new_edges, new_eattr = {}, {}
        for e, i in edge_map.items():
            new_edges[i] = self._map_members(self.edges[e], node_map)
            a = deepcopy(self.eattr[e])
            a[label_attribute] = e
            new_eattr[i] = a
        self.nodes, self.edges, self.eattr = new_nodes, new_edges, new_eattr

    def _map_members(self, v, node_map):
        return {node_map[n] for n in v}


# =========================================================================
class HModel(BaseModel):
    kind = "H"
    STRUCTURAL = {
        "add_node", "add_nodes_from", "remove_node", "remove_nodes_from", "add_edge",
        "add_edges_from", "add_weighted_edges_from", "remove_edge", "remove_edges_from",
        "add_node_to_edge", "remove_node_from_edge", "clear", "clear_edges",
        "double_edge_swap", "random_edge_shuffle", "merge_duplicate_edges", "update",
        "cleanup", "convert_labels_to_integers", "largest_connected_hypergraph",
    }

    # ---- nodes -----------------------------------------------------------
    def do_remove_node(self, n, strong, remove_empty):
        if not hashable(n):
            raise Reject("ANY", "unhashable")
        if n not in self.nodes:
            raise Reject("LIB", "missing node")
        del self.nodes[n]
        for e in list(self.edges):
            if n in self.edges[e]:
                if strong:
                    del self.edges[e]
                    del self.eattr[e]
                else:
                    self.edges[e].discard(n)
                    if not self.edges[e] and remove_empty:
                        del self.edges[e]
                        del self.eattr[e]

    def do_remove_nodes_from(self, nodes, strong, remove_empty):
        warn = False
        for n in nodes:
            if not hashable(n) or n not in self.nodes:
                warn = True
                continue
            self.do_remove_node(n, strong, remove_empty)
        return Exp(warn=warn)

    # ---- edges -----------------------------------------------------------
    def _check_members(self, members):
        for n in members:
            if not hashable(n):
                raise Reject("ANY", "unhashable member")
        if any(n is None for n in members):
            raise Reject("LIB", "None member")

    def _add_one(self, members, idx, attr):
        """Returns True if added, False if refused (explicit ID present)."""
        if idx is not None and not hashable(idx):
            raise Reject("ANY", "unhashable id")
        if idx is not None and idx in self.edges:
            return False
        self._check_members(members)
        uid = self.fresh(members) if idx is None else idx
        self._mk_nodes(members)
        self.edges[uid] = set(members)
        self.eattr[uid] = dict(attr)
        return True

    def do_add_edge(self, members, idx, attr):
        if idx is not None and hashable(idx) and idx in self.edges:
            return Exp(warn=True)
        if len(members) == 0:
            # docstring: raises XGIError; pinned test: adds an empty edge.  Both accepted.
            if self.choose(2) == 1:
                raise Reject("LIB", "empty members")
        self._add_one(members, idx, attr)

    def do_add_edges_from(self, fmt, items, attr):
        """items: list of (members, idx|None, eattr|None) already normalised by fmt."""
        warn = False
        for members, idx, eattr in items:
            a = dict(attr)
            a.update(eattr or {})
            if not self._add_one(members, idx, a):
                warn = True
        return Exp(warn=warn)

    def do_add_weighted_edges_from(self, items, weight, attr):
        for members, w in items:
            a = dict(attr)
            a[weight] = w
            self._add_one(members, None, a)

    def do_add_node_to_edge(self, edge, node):
        if edge is None or node is None:
            if edge is not None and hashable(edge) and edge not in self.edges:
                # the edge is created before the node is looked at
                self.edges[edge] = set()
                self.eattr[edge] = {}
            raise Reject("LIB", "None id")
        if not hashable(edge) or not hashable(node):
            raise Reject("ANY", "unhashable")
        if edge not in self.edges:
            self.edges[edge] = set()
            self.eattr[edge] = {}
        if node not in self.nodes:
            self.nodes[node] = {}
        self.edges[edge].add(node)

    def do_remove_edge(self, idx):
        if not hashable(idx):
            raise Reject("ANY", "unhashable")
        if idx not in self.edges:
            raise Reject("LIB", "missing edge")
        del self.edges[idx]
        del self.eattr[idx]

    def do_remove_edges_from(self, ebunch):
        for idx in ebunch:
            self.do_remove_edge(idx)

    def do_remove_node_from_edge(self, edge, node, remove_empty):
        if not hashable(edge) or not hashable(node):
            raise Reject("ANY", "unhashable")
        if edge not in self.edges or node not in self.nodes or node not in self.edges[edge]:
            raise Reject("LIB", "missing")
        self.edges[edge].discard(node)
        if not self.edges[edge] and remove_empty:
            del self.edges[edge]
            del self.eattr[edge]

    def do_update(self, edges, nodes):
        exp = Exp()
        if nodes:
            self.do_add_nodes_from(nodes, {})
        if edges:
            exp = self.do_add_edges_from(1, [(m, None, None) for m in edges], {})
        return exp

    def do_clear_edges(self):
        self.edges.clear()
        self.eattr.clear()

    def do_double_edge_swap(self, n1, n2, e1, e2):
        for x in (n1, n2, e1, e2):
            if not hashable(x):
                raise Reject("ANY", "unhashable")
        if n1 not in self.nodes or n2 not in self.nodes or e1 not in self.edges or e2 not in self.edges:
            raise Reject("LIB", "missing id")
        if n1 not in self.edges[e1] or n2 not in self.edges[e2]:
            raise Reject("LIB", "node not in edge")
        def same(a, b):
            # (a numpy integer compared with a tuple label broadcasts to an array)
            try:
                return bool(a == b)
            except Exception:
                return False

        if same(n1, n2) and same(e1, e2):
            return  # the identity swap preserves everything
        if same(n1, n2) or same(e1, e2) or n2 in self.edges[e1] or n1 in self.edges[e2]:
            raise Reject("LIB", "swap would change a size or a degree")
        self.edges[e1].discard(n1)
        self.edges[e1].add(n2)
        self.edges[e2].discard(n2)
        self.edges[e2].add(n1)

    def dup_classes(self):
        classes = {}
        for e, m in self.edges.items():
            classes.setdefault(frozenset(m), []).append(e)
        return [(m, ids) for m, ids in classes.items() if len(ids) > 1]

    def do_merge_duplicate_edges(self, rename, merge_rule, multiplicity):
        classes = self.dup_classes()
        bad = rename not in ("first", "tuple", "new") or merge_rule not in (
            "first", "union", "intersection")
        needs_order = rename in ("first", "tuple") or merge_rule == "first"
        unorderable = needs_order and any(not orderable(ids) for _, ids in classes)
        if bad:
            # documented: raises XGIError; the code only looks at the arguments when there is a
            # duplicate class, so without one "nothing to merge" is accepted as well
            if unorderable:
                raise Reject("ANY", "invalid rename / merge_rule and unorderable duplicate ids")
            if classes or self.choose(2) == 1:
                raise Reject("LIB", "invalid rename / merge_rule")
            return Exp()
        if unorderable:
            # "first of the sorted duplicate edge IDs" is undefined
            raise Reject("ANY", "unorderable duplicate ids")
        new = []
        for members, ids in classes:
            if rename == "first":
                new_id = sorted(ids)[0]
            elif rename == "tuple":
                new_id = tuple(sorted(ids))
            else:
                new_id = "NEW"
            if merge_rule == "first":
                a = deepcopy(self.eattr[min(ids)])
            else:
                keys = []
                for i in ids:
                    for k in self.eattr[i]:
                        if k not in keys:
                            keys.append(k)
                try:
                    sets = {k: {self.eattr[i].get(k) for i in ids} for k in keys}
                except TypeError:
                    raise Reject("ANY", "unhashable attribute value in union/intersection")
                if merge_rule == "union":
                    a = sets
                else:
                    a = {k: (next(iter(v)) if len(v) == 1 else None) for k, v in sets.items()}
            if multiplicity is not None:
                a[multiplicity] = len(ids)
            new.append((members, new_id, a, ids))
        for _, _, _, ids in new:
            for i in ids:
                del self.edges[i]
                del self.eattr[i]
        warn = merge_rule == "union"
        for members, new_id, a, ids in new:
            if new_id == "NEW":
                new_id = self.fresh(members)
            if new_id in self.edges:
                # e.g. a tuple ID produced by an earlier merge: refused with a warning
                warn = True
                continue
            self.edges[new_id] = set(members)
            self.eattr[new_id] = a
        return Exp(warn=warn, edges_order_free=True)

    def do_largest_connected_hypergraph(self):
        if not self.nodes:
            raise Reject("ANY", "no nodes")
        comps = self.components()
        top = max(len(c) for c in comps)
        cands = [c for c in comps if len(c) == top]
        self.apply_lcc(cands[self.choose(len(cands))])  # ties are not pinned

    def apply_lcc(self, keep):
        for n in list(self.nodes):
            if n not in keep:
                self.do_remove_node(n, False, True)

    def do_convert_labels_to_integers(self, label_attribute):
        self.relabel(label_attribute)

    def do_cleanup(self, isolates, singletons, multiedges, connected, relabel):
        exp = self.cleanup_stage1(isolates, singletons, multiedges)
        if connected:
            self.do_largest_connected_hypergraph()
        if relabel:
            self.relabel("label")
        return exp

    def cleanup_stage1(self, isolates, singletons, multiedges):
        exp = Exp(edges_order_free=True)
        if not multiedges:
            e2 = self.do_merge_duplicate_edges("first", "first", None)
            exp.warn = exp.warn or e2.warn
        if not singletons:
            for e in [e for e, m in self.edges.items() if len(m) == 1]:
                self.do_remove_edge(e)
        if not isolates:
            for n in [n for n in self.nodes if not self.memberships(n)]:
                self.do_remove_node(n, False, True)
        return exp


# =========================================================================
class SCModel(HModel):
    kind = "SC"
    STRUCTURAL = {
        "add_node", "add_nodes_from", "remove_node", "remove_nodes_from", "add_simplex",
        "add_simplices_from", "add_weighted_simplices_from", "remove_simplex_id",
        "remove_simplex_ids_from", "clear", "close", "cleanup", "convert_labels_to_integers",
        "largest_connected_hypergraph", "alias_add_edge", "alias_add_edges_from",
        "alias_add_weighted_edges_from", "alias_remove_edge", "alias_remove_edges_from",
    }

    def _copy_members(self, v):
        return frozenset(v)

    def _map_members(self, v, node_map):
        return frozenset(node_map[n] for n in v)

    def has(self, members):
        fs = frozenset(members)
        return any(fs == m for m in self.edges.values())

    def do_remove_node(self, n):
        HModel.do_remove_node(self, n, True, True)

    def do_remove_nodes_from(self, nodes):
        warn = False
        for n in nodes:
            if not hashable(n) or n not in self.nodes:
                warn = True
                continue
            self.do_remove_node(n)
        return Exp(warn=warn)

    def _add_faces(self, members, up_to=None):
        """Add every missing subset of size >= 2 (and <= up_to) with a fresh ID."""
        members = csort(members)
        top = len(members) - 1 if up_to is None else min(up_to, len(members))
        for k in range(top, 1, -1):
            for sub in combinations(members, k):
                if not self.has(sub):
                    uid = self.fresh(sub)
                    self.edges[uid] = frozenset(sub)
                    self.eattr[uid] = {}

    def _add_simplex_one(self, members, idx, attr, max_order=None):
        """returns 'added' | 'present' | 'refused' | 'empty' | 'cut'"""
        if idx is not None and not hashable(idx):
            raise Reject("ANY", "unhashable id")
        self._check_members(members)
        if len(members) == 0:
            return "empty"
        if self.has(members):
            return "present"
        if max_order is not None and len(set(members)) > max_order + 1:
            if idx is not None and idx in self.edges and self.choose(2) == 1:
                # the explicit ID is taken: refusing the item (dict format) and cutting it to
                # its faces without using the ID (tuple formats) are both observed and both
                # leave every existing simplex alone
                return "refused"
            self._mk_nodes(members)
            self._pending_faces.append((members, max_order + 1))
            return "cut"
        if idx is not None and idx in self.edges:
            return "refused"
        uid = self.fresh(members) if idx is None else idx
        self._mk_nodes(members)
        self.edges[uid] = frozenset(members)
        self.eattr[uid] = dict(attr)
        self._pending_faces.append((members, None))
        return "added"

    def _flush_faces(self):
        for members, up_to in self._pending_faces:
            self._add_faces(members, up_to)
        self._pending_faces = []

    def do_add_simplex(self, members, idx, attr):
        self._pending_faces = []
        if len(members) == 0:
            if self.choose(2) == 1:
                raise Reject("LIB", "empty simplex")
            return Exp()
        r = self._add_simplex_one(members, idx, attr)
        self._flush_faces()
        return Exp(warn=(r == "refused"), edges_order_free=True)

    def do_add_simplices_from(self, fmt, items, attr, max_order):
        self._pending_faces = []
        warn = False
        try:
            for members, idx, eattr in items:
                a = dict(attr)
                a.update(eattr or {})
                r = self._add_simplex_one(members, idx, a, max_order)
                warn = warn or r == "refused"
        finally:
            pass
        self._flush_faces()
        return Exp(warn=warn, edges_order_free=True)

    def do_add_weighted_simplices_from(self, items, weight, attr, max_order):
        self._pending_faces = []
        for members, w in items:
            a = dict(attr)
            a[weight] = w
            self._add_simplex_one(members, None, a, max_order)
        self._flush_faces()
        return Exp(edges_order_free=True)

    def do_remove_simplex_id(self, idx):
        if not hashable(idx):
            raise Reject("ANY", "unhashable")
        if idx not in self.edges:
            raise Reject("LIB", "missing simplex")
        base = self.edges[idx]
        for e in [e for e, m in self.edges.items() if base < m or e == idx]:
            del self.edges[e]
            del self.eattr[e]

    def do_remove_simplex_ids_from(self, ebunch):
        before = set(self.edges)
        for idx in ebunch:
            if hashable(idx) and idx in before and idx not in self.edges:
                continue
            self.do_remove_simplex_id(idx)

    def do_close(self):
        self._pending_faces = []
        for m in list(self.edges.values()):
            self._add_faces(m)
        return Exp(edges_order_free=True)

    # deprecated aliases (+ one deprecation notice, which is not a "refusal" warning)
    def do_alias_add_edge(self, members, attr):
        return self.do_add_simplex(members, None, attr)

    def do_alias_add_edges_from(self, fmt, items, attr):
        return self.do_add_simplices_from(fmt, items, attr, None)

    def do_alias_add_weighted_edges_from(self, items, weight, attr, max_order):
        return self.do_add_weighted_simplices_from(items, weight, attr, max_order)

    def do_alias_remove_edge(self, idx):
        return self.do_remove_simplex_id(idx)

    def do_alias_remove_edges_from(self, ebunch):
        return self.do_remove_simplex_ids_from(ebunch)

    def do_cleanup(self, isolates, connected, relabel):
        if not isolates:
            for n in [n for n in self.nodes if not self.memberships(n)]:
                self.do_remove_node(n)
        if connected:
            self.do_largest_connected_hypergraph()
        if relabel:
            self.relabel("label")
        return Exp(edges_order_free=True)

    def apply_lcc(self, keep):
        for n in list(self.nodes):
            if n not in keep:
                self.do_remove_node(n)

    def is_closed(self):
        """a valid complex: downward closed and no two IDs with the same node set (the inherited
        Hypergraph mutators -- random_edge_shuffle -- can leave an SC object that is neither)"""
        present = set(self.edges.values())
        if len(present) != len(self.edges):
            return False
        for m in present:
            mm = csort(m)
            for k in range(2, len(mm)):
                for sub in combinations(mm, k):
                    if frozenset(sub) not in present:
                        return False
        return True


# =========================================================================
class DHModel(BaseModel):
    kind = "DH"
    STRUCTURAL = {
        "add_node", "add_nodes_from", "remove_node", "remove_nodes_from", "add_edge",
        "add_edges_from", "remove_edge", "remove_edges_from", "add_node_to_edge",
        "remove_node_from_edge", "clear", "cleanup", "convert_labels_to_integers",
    }

    def _copy_members(self, v):
        return (set(v[0]), set(v[1]))

    def _map_members(self, v, node_map):
        return ({node_map[n] for n in v[0]}, {node_map[n] for n in v[1]})

    def all_members(self, e):
        t, h = self.edges[e]
        return set(t) | set(h)

    def do_remove_node(self, n, strong, remove_empty):
        if not hashable(n):
            raise Reject("ANY", "unhashable")
        if n not in self.nodes:
            raise Reject("LIB", "missing node")
        del self.nodes[n]
        for e in list(self.edges):
            t, h = self.edges[e]
            if n in t or n in h:
                if strong:
                    del self.edges[e]
                    del self.eattr[e]
                else:
                    t.discard(n)
                    h.discard(n)
                    if not t and not h and remove_empty:
                        del self.edges[e]
                        del self.eattr[e]

    def do_remove_nodes_from(self, nodes, strong, remove_empty):
        warn = False
        for n in nodes:
            if not hashable(n) or n not in self.nodes:
                warn = True
                continue
            self.do_remove_node(n, strong, remove_empty)
        return Exp(warn=warn)

    def _check_members(self, members):
        for n in members:
            if not hashable(n):
                raise Reject("ANY", "unhashable member")
        if any(n is None for n in members):
            raise Reject("LIB", "None member")

    def _add_one(self, tail, head, idx, attr):
        if idx is not None and not hashable(idx):
            raise Reject("ANY", "unhashable id")
        if idx is not None and idx in self.edges:
            return False
        self._check_members(list(tail) + list(head))
        uid = self.fresh((tail, head)) if idx is None else idx
        self._mk_nodes(set(tail) | set(head))
        self.edges[uid] = (set(tail), set(head))
        self.eattr[uid] = dict(attr)
        return True

    def do_add_edge(self, tail, head, idx, attr):
        if idx is not None and hashable(idx) and idx in self.edges:
            return Exp(warn=True)
        self._add_one(tail, head, idx, attr)

    def do_add_edges_from(self, fmt, items, attr):
        warn = False
        for (tail, head), idx, eattr in items:
            a = dict(attr)
            a.update(eattr or {})
            if not self._add_one(tail, head, idx, a):
                warn = True
        return Exp(warn=warn)

    def do_add_node_to_edge(self, edge, node, direction):
        if direction not in ("in", "out"):
            raise Reject("LIB", "invalid direction")
        if edge is None or node is None:
            if edge is not None and hashable(edge) and edge not in self.edges:
                self.edges[edge] = (set(), set())
                self.eattr[edge] = {}
            raise Reject("LIB", "None id")
        if not hashable(edge) or not hashable(node):
            raise Reject("ANY", "unhashable")
        if edge not in self.edges:
            self.edges[edge] = (set(), set())
            self.eattr[edge] = {}
        if node not in self.nodes:
            self.nodes[node] = {}
        self.edges[edge][0 if direction == "in" else 1].add(node)

    def do_remove_edge(self, idx):
        if not hashable(idx):
            raise Reject("ANY", "unhashable")
        if idx not in self.edges:
            raise Reject("LIB", "missing edge")
        del self.edges[idx]
        del self.eattr[idx]

    def do_remove_edges_from(self, ebunch):
        for idx in ebunch:
            self.do_remove_edge(idx)

    def do_remove_node_from_edge(self, edge, node, direction, remove_empty):
        if direction not in ("in", "out"):
            raise Reject("LIB", "invalid direction")
        if not hashable(edge) or not hashable(node):
            raise Reject("ANY", "unhashable")
        if edge not in self.edges or node not in self.nodes:
            raise Reject("LIB", "missing")
        side = self.edges[edge][0 if direction == "in" else 1]
        if node not in side:
            raise Reject("LIB", "node not on that side")
        side.discard(node)
        t, h = self.edges[edge]
        if not t and not h and remove_empty:
            del self.edges[edge]
            del self.eattr[edge]

    def do_convert_labels_to_integers(self, label_attribute):
        self.relabel(label_attribute)

    def do_cleanup(self, isolates, relabel):
        if not isolates:
            for n in [n for n in self.nodes if not self.memberships(n)]:
                self.do_remove_node(n, False, True)
        if relabel:
            self.relabel("label")
        return Exp()


MODEL_OF = {"H": HModel, "DH": DHModel, "SC": SCModel}


def model_from_snapshot(kind, snap, frozen=False):
    """Adopt a (coherent) SUT snapshot as model state."""
    m = MODEL_OF[kind]()
    for n in snap["nodes"]:
        m.nodes[n] = deepcopy(snap["nattr"][n])
    for e in snap["edges"]:
        m.edges[e] = m._copy_members(snap["members"][e])
        m.eattr[e] = deepcopy(snap["eattr"][e])
    m.net = deepcopy(snap["net"])
    m.frozen = frozen
    return m
