"""A fuzzing dictionary taken from the code under test: the short string constants of the xgi
sources (docstrings excluded).  Labels and attribute names that coincide with a string the
library uses internally (a sentinel, a dict key, a parameter or mode name) are inputs like any
other; drawing them from the tree under test means a newly introduced magic string is tried too.
Deterministic for a given tree (sorted), computed once per process."""
import ast
import os
import re

_CACHE = {}


def words(src=None):
    src = src or os.environ.get("XGI_SRC", "/repo")
    if src in _CACHE:
        return _CACHE[src]
    found = set()
    for root, dirs, files in os.walk(os.path.join(src, "xgi")):
        dirs.sort()
        for f in sorted(files):
            if not f.endswith(".py"):
                continue
            try:
                tree = ast.parse(open(os.path.join(root, f), encoding="utf-8").read())
            except Exception:
                continue
            doc = set()
            for n in ast.walk(tree):
                if isinstance(n, (ast.FunctionDef, ast.AsyncFunctionDef, ast.ClassDef, ast.Module)):
                    d = ast.get_docstring(n, clean=False)
                    if d:
                        doc.add(d)
            for n in ast.walk(tree):
                if isinstance(n, ast.Constant) and isinstance(n.value, str) and n.value not in doc:
                    if re.fullmatch(r"[A-Za-z_][A-Za-z0-9_\-]{0,11}", n.value):
                        found.add(n.value)
    out = sorted(found)
    _CACHE[src] = out
    return out


def weighted(src=None):
    """the same words, those that look like sentinels (underscore-decorated) eight times each"""
    key = ("w", src or os.environ.get("XGI_SRC", "/repo"))
    if key not in _CACHE:
        ws = words(src)
        _CACHE[key] = [w for w in ws for _ in range(8 if w.startswith("_") or w.endswith("_") else 1)]
    return _CACHE[key]
