"""JSON-safe encoding of labels / values used in op records, and canonical ordering.

Everything that is put into a replay file goes through enc(); everything that is handed
to xgi goes through dec().  Tuples, floats, None and the "poison" values survive the
round trip.  No PRNG and no clock is touched here.
"""

POISON_UNHASHABLE = {"l": [9, 9]}


class Box:
    """An attribute value that is *hashable* and *mutable* (a user-defined object with state):
    equal by state, constant hash, copyable and picklable."""

    def __init__(self, items=()):
        self.items = list(items)

    def __eq__(self, other):
        return isinstance(other, Box) and self.items == other.items

    def __hash__(self):
        return 7

    def __repr__(self):
        return f"Box({self.items!r})"


def enc(v):
    if v is None or isinstance(v, (bool, str)):
        return v
    if type(v).__module__ == "numpy" and type(v).__name__.startswith(("int", "uint")):
        return {"npi": int(v)}  # numpy integer labels keep their type in replay files
    if isinstance(v, int):
        return int(v)
    if isinstance(v, float):
        return {"f": v}
    if isinstance(v, complex):
        return {"c": [v.real, v.imag]}
    if isinstance(v, Box):
        return {"box": [enc(x) for x in v.items]}
    if isinstance(v, tuple):
        return {"t": [enc(x) for x in v]}
    if isinstance(v, list):
        return {"l": [enc(x) for x in v]}
    if isinstance(v, (set, frozenset)):
        return {"s": [enc(x) for x in csort(v)]}
    if isinstance(v, dict):
        return {"d": [[enc(k), enc(x)] for k, x in v.items()]}
    # numpy scalars and the like
    try:
        import numpy as np

        if isinstance(v, np.integer):
            return int(v)
        if isinstance(v, np.floating):
            return {"f": float(v)}
    except Exception:  # pragma: no cover
        pass
    return {"r": repr(v)}


def dec(v):
    if isinstance(v, dict):
        if "npi" in v:
            import numpy as np

            return np.int64(v["npi"])
        if "box" in v:
            return Box(dec(x) for x in v["box"])
        if "f" in v:
            return float(v["f"])
        if "c" in v:
            return complex(v["c"][0], v["c"][1])
        if "t" in v:
            return tuple(dec(x) for x in v["t"])
        if "l" in v:
            return [dec(x) for x in v["l"]]
        if "s" in v:
            return set(dec(x) for x in v["s"])
        if "d" in v:
            return {dec(k): dec(x) for k, x in v["d"]}
        if "r" in v:
            return v["r"]
        raise ValueError(v)
    if isinstance(v, list):
        return [dec(x) for x in v]
    return fresh(v)


def fresh(v):
    """an object equal to v but (where the interpreter allows it) not the same object: labels
    handed to xgi are *equal* to the ones it already holds, never identical (code that compares
    with `is` instead of `==` must not get away with it).  Small ints, None, bools and the empty
    string are singletons and stay what they are."""
    t = type(v)
    if t is str and v:
        return (v + "\0")[:-1]
    if t is float:
        return v + 0.0 if v == v else v
    if t is int and not -6 < v < 257:
        return int(str(v))
    if t is tuple:
        return tuple(fresh(x) for x in v)
    if t is complex:
        return complex(v.real, v.imag)
    if t.__module__ == "numpy" and t.__name__.startswith(("int", "uint")):
        return t(int(v))
    return v


def ckey(v):
    """Canonical, hash-seed independent sort key."""
    return (type(v).__name__, repr(v))


def csort(it):
    return sorted(it, key=ckey)


def canon(v):
    """Canonical repr-able structure (sets sorted, dict order kept)."""
    if isinstance(v, (set, frozenset)):
        return ["#set"] + [canon(x) for x in csort(v)]
    if isinstance(v, dict):
        return {repr(k): canon(x) for k, x in v.items()}
    if isinstance(v, (list, tuple)):
        return [canon(x) for x in v]
    if isinstance(v, float) and v != v:
        return "nan"
    return repr(v)


def refresh(v):
    """deep copy of a nested argument structure (dict / list / tuple / set) with fresh() atoms"""
    if isinstance(v, dict):
        return {refresh(k): refresh(x) for k, x in v.items()}
    if isinstance(v, list):
        return [refresh(x) for x in v]
    if isinstance(v, tuple):
        return tuple(refresh(x) for x in v)
    if isinstance(v, (set, frozenset)):
        return type(v)(refresh(x) for x in v)
    if isinstance(v, Box):
        return Box(refresh(x) for x in v.items)
    return fresh(v)
