"""Observation of a live xgi object through its public API, and the integrity invariants
(C01 / C02 / C03 state clauses).  A snapshot never raises: anomalies are collected."""

from copy import deepcopy
from itertools import combinations

from .labels import canon, csort


def kind_of(obj):
    import xgi

    if isinstance(obj, xgi.SimplicialComplex):
        return "SC"
    if isinstance(obj, xgi.DiHypergraph):
        return "DH"
    if isinstance(obj, xgi.Hypergraph):
        return "H"
    raise TypeError(type(obj))


def snapshot(obj, deep=True):
    """Returns (snap, anomalies).  snap keys: nodes, edges, members, memberships, nattr,
    eattr, net.  For DH members[e] = (tail, head) and memberships[n] = (in, out)."""
    kind = kind_of(obj)
    anomalies = []
    nodes = list(obj.nodes)
    edges = list(obj.edges)
    members, memberships, nattr, eattr = {}, {}, {}, {}
    for e in edges:
        try:
            if kind == "DH":
                members[e] = obj.edges.dimembers(e)
            else:
                members[e] = obj.edges.members(e)
        except Exception as ex:  # noqa
            anomalies.append(("members_unreadable", e, type(ex).__name__))
            members[e] = (set(), set()) if kind == "DH" else set()
        try:
            a = obj.edges[e]
            if not isinstance(a, dict):
                anomalies.append(("edge_attr_not_dict", e, type(a).__name__))
                a = {}
            eattr[e] = deepcopy(a) if deep else a
        except Exception as ex:  # noqa
            anomalies.append(("edge_without_attr_record", e, type(ex).__name__))
            eattr[e] = {}
    for n in nodes:
        try:
            if kind == "DH":
                memberships[n] = obj.nodes.dimemberships(n)
            else:
                memberships[n] = obj.nodes.memberships(n)
        except Exception as ex:  # noqa
            anomalies.append(("memberships_unreadable", n, type(ex).__name__))
            memberships[n] = (set(), set()) if kind == "DH" else set()
        try:
            a = obj.nodes[n]
            if not isinstance(a, dict):
                anomalies.append(("node_attr_not_dict", n, type(a).__name__))
                a = {}
            nattr[n] = deepcopy(a) if deep else a
        except Exception as ex:  # noqa
            anomalies.append(("node_without_attr_record", n, type(ex).__name__))
            nattr[n] = {}
    # "exactly one attribute record": no orphan records either
    try:
        extra_n = [n for n in obj._node_attr if n not in obj._node]
        extra_e = [e for e in obj._edge_attr if e not in obj._edge]
        for n in extra_n:
            anomalies.append(("orphan_node_attr_record", n, ""))
        for e in extra_e:
            anomalies.append(("orphan_edge_attr_record", e, ""))
    except Exception as ex:  # noqa
        anomalies.append(("attr_tables_unreadable", None, type(ex).__name__))
    # the views must list exactly what the network holds (C06: "views are live")
    try:
        if list(obj._node) != nodes:
            anomalies.append(("node_view_not_live", f"view={nodes!r}", f"network={list(obj._node)!r}"))
        if list(obj._edge) != edges:
            anomalies.append(("edge_view_not_live", f"view={edges!r}", f"network={list(obj._edge)!r}"))
    except Exception as ex:  # noqa
        anomalies.append(("tables_unreadable", None, type(ex).__name__))
    net = deepcopy(obj._net_attr) if deep else obj._net_attr
    snap = {
        "kind": kind,
        "nodes": nodes,
        "edges": edges,
        "members": members,
        "memberships": memberships,
        "nattr": nattr,
        "eattr": eattr,
        "net": net,
    }
    return snap, anomalies


def integrity(snap):
    """Two-way incidence + no dangling references.  Returns list of (clause, detail)."""
    out = []
    kind = snap["kind"]
    nodes = snap["nodes"]
    edges = snap["edges"]
    nodeset = set(nodes)
    edgeset = set(edges)
    if len(nodeset) != len(nodes):
        out.append(("duplicate_node_ids", repr(nodes)))
    if len(edgeset) != len(edges):
        out.append(("duplicate_edge_ids", repr(edges)))
    if kind == "DH":
        for e in edges:
            tail, head = snap["members"][e]
            for n in tail:
                if n not in nodeset:
                    out.append(("member_not_a_node", f"edge {e!r} tail {n!r}"))
                elif e not in snap["memberships"][n][1]:
                    out.append(("tail_without_out_membership", f"edge {e!r} node {n!r}"))
            for n in head:
                if n not in nodeset:
                    out.append(("member_not_a_node", f"edge {e!r} head {n!r}"))
                elif e not in snap["memberships"][n][0]:
                    out.append(("head_without_in_membership", f"edge {e!r} node {n!r}"))
        for n in nodes:
            inn, outt = snap["memberships"][n]
            for e in inn:
                if e not in edgeset:
                    out.append(("membership_not_an_edge", f"node {n!r} in {e!r}"))
                elif n not in snap["members"][e][1]:
                    out.append(("in_membership_without_head", f"node {n!r} edge {e!r}"))
            for e in outt:
                if e not in edgeset:
                    out.append(("membership_not_an_edge", f"node {n!r} out {e!r}"))
                elif n not in snap["members"][e][0]:
                    out.append(("out_membership_without_tail", f"node {n!r} edge {e!r}"))
    else:
        for e in edges:
            for n in snap["members"][e]:
                if n not in nodeset:
                    out.append(("member_not_a_node", f"edge {e!r} member {n!r}"))
                elif e not in snap["memberships"][n]:
                    out.append(("member_without_membership", f"edge {e!r} node {n!r}"))
        for n in nodes:
            for e in snap["memberships"][n]:
                if e not in edgeset:
                    out.append(("membership_not_an_edge", f"node {n!r} edge {e!r}"))
                elif n not in snap["members"][e]:
                    out.append(("membership_without_member", f"node {n!r} edge {e!r}"))
    return out


def simplicial_invariants(snap, obj=None):
    """Downward closure (subsets of size >= 2), no duplicate member sets, no empty simplex."""
    out = []
    seen = {}
    for e in snap["edges"]:
        m = frozenset(snap["members"][e])
        if not m:
            out.append(("empty_simplex", f"id {e!r}"))
        if m in seen:
            out.append(("duplicate_simplex", f"ids {seen[m]!r} and {e!r} = {csort(m)!r}"))
        else:
            seen[m] = e
    present = set(seen)
    for m in list(present):
        mm = csort(m)
        for k in range(2, len(mm)):
            for sub in combinations(mm, k):
                if frozenset(sub) not in present:
                    out.append(("not_downward_closed", f"{list(sub)!r} missing under {mm!r}"))
                    break
            else:
                continue
            break
    return out


def counts_consistent(obj, snap):
    """degree / size reported by the stats equal the sizes of the reported sets."""
    out = []
    kind = snap["kind"]
    try:
        if kind == "DH":
            deg = obj.nodes.degree.asdict()
            ind = obj.nodes.in_degree.asdict()
            outd = obj.nodes.out_degree.asdict()
            for n in snap["nodes"]:
                i, o = snap["memberships"][n]
                if deg[n] != len(i | o) or ind[n] != len(i) or outd[n] != len(o):
                    out.append(("degree_ne_memberships", f"node {n!r}"))
            size = obj.edges.size.asdict()
            hs = obj.edges.head_size.asdict()
            ts = obj.edges.tail_size.asdict()
            for e in snap["edges"]:
                t, h = snap["members"][e]
                if size[e] != len(t | h) or hs[e] != len(h) or ts[e] != len(t):
                    out.append(("size_ne_members", f"edge {e!r}"))
        else:
            deg = obj.nodes.degree.asdict()
            for n in snap["nodes"]:
                if deg[n] != len(snap["memberships"][n]):
                    out.append(("degree_ne_memberships", f"node {n!r}"))
            size = obj.edges.size.asdict()
            for e in snap["edges"]:
                if size[e] != len(snap["members"][e]):
                    out.append(("size_ne_members", f"edge {e!r}"))
    except Exception as ex:  # noqa
        out.append(("stats_unreadable", f"{type(ex).__name__}: {ex}"))
    return out


def digest_form(snap):
    """Canonical structure for hashing / logging (hash-seed independent given equal state)."""
    return canon(
        [
            snap["kind"],
            snap["nodes"],
            snap["edges"],
            [snap["members"][e] for e in snap["edges"]],
            [snap["nattr"][n] for n in snap["nodes"]],
            [snap["eattr"][e] for e in snap["edges"]],
            snap["net"],
        ]
    )


def structural_key(snap):
    """State identity used to count distinct states (labels included, attrs excluded)."""
    return repr(canon([snap["kind"], snap["nodes"], snap["edges"],
                       [snap["members"][e] for e in snap["edges"]]]))
