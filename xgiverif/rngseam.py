"""RNG seam: owns the two process-global generators (`random`, legacy `numpy.random`).

real mode       : both generators are set from a scheduler-chosen state before the call
adversarial mode: random.random / numpy.random.random additionally return a scripted stream
                  (boundary values over-represented); when the script is exhausted the real
                  generator continues.  Any finite float sequence in [0, 1) is a legal outcome
                  of an unseeded generator, so no scripted run can produce an alarm that no
                  seed could produce.
"""
import math
import random

import numpy as np


class Scripted:
    def __init__(self, py_script=None, np_script=None):
        self.py_script = list(py_script or [])
        self.np_script = list(np_script or [])
        self.py_used = 0
        self.np_used = 0
        self._saved = None

    def __enter__(self):
        self._saved = (random.random, np.random.random)
        real_py, real_np = self._saved
        me = self

        def py_random():
            if me.py_script:
                me.py_used += 1
                return me.py_script.pop(0)
            return real_py()

        def np_random(size=None):
            out = real_np(size)
            if me.np_script and size is not None:
                flat = np.asarray(out, dtype=float).reshape(-1)
                k = min(len(flat), len(me.np_script))
                for i in range(k):
                    flat[i] = me.np_script.pop(0)
                me.np_used += k
                return flat.reshape(np.shape(out))
            if me.np_script and size is None:
                me.np_used += 1
                return me.np_script.pop(0)
            return out

        random.random = py_random
        np.random.random = np_random
        return self

    def __exit__(self, *a):
        random.random, np.random.random = self._saved


def r_for_geometric(g, p):
    """a value r in (0, 1) with ceil(log(r) / log(1 - p)) == g   (0 < p < 1, g >= 1)"""
    r = (1.0 - p) ** (g - 0.5)
    if not (0.0 < r < 1.0):
        r = min(max(r, 5e-324), 1.0 - 2.0 ** -53)
    return r


def set_global_state(seed):
    random.seed(seed)
    np.random.seed(seed % (1 << 32))
