"""Batch runner: spreads seeded runs over worker processes (one PYTHONHASHSEED per worker),
aggregates evidence, minimises and re-verifies violations, prints the verdict lines.

Exit codes: 0 = property held on everything explored (KNOWN-FINDING lines possible),
1 = VIOLATION (replay file written and re-verified in a fresh interpreter),
2 = harness error / timeout (never prints a VIOLATION line, never exits 0).
"""

import faulthandler
import hashlib
import json
import os
import subprocess
import sys
import time
import traceback
from collections import Counter

ROOT = os.path.dirname(os.path.dirname(os.path.abspath(__file__)))
PY = "/venv/bin/python"
HASHSEEDS = ["0", "1", "2", "3"]

BUDGET = {
    # prop: (quick runs, thorough runs)
    "C01": (5000, 100000), "C02": (5000, 100000), "C03": (4000, 24000), "C04": (4000, 80000),
    "C05": (5000, 100000), "C06": (4000, 50000), "C07": (4000, 60000), "C08": (6000, 60000),
    "C09": (6000, 60000), "C10": (6000, 60000), "C11": (6000, 100000), "C16": (4000, 60000),
    "C17": (1600, 24000), "C18": (4000, 60000), "C19": (6000, 60000),
}


def hooks_for(prop):
    from .props import registry

    return registry.hooks_for(prop)


# ---------------------------------------------------------------------------
def one_run(prop, tier, verif_seed, index, xgi):
    from . import props, sim

    seed = sim.run_seed(prop, verif_seed, index)
    cfg = props.config(prop, seed, tier)
    s = sim.Sim(prop, cfg, seed, xgi)
    s.hooks = hooks_for(prop)
    res = s.run_generated(cfg["steps"])
    res["index"] = index
    res["seed"] = seed
    res["cfg"] = cfg
    return res, s


def worker_main(argv):
    """check --worker PROP TIER VERIF_SEED CLASS SLOT NSLOTS NRUNS OUTFILE"""
    prop, tier, verif_seed, cls, slot, nslots, nruns, outfile = argv
    verif_seed, cls, slot, nslots, nruns = int(verif_seed), int(cls), int(slot), int(nslots), int(nruns)
    faulthandler.enable()
    faulthandler.dump_traceback_later(int(os.environ.get("VERIF_WORKER_TIMEOUT", "3000")), exit=True)
    from . import minimise, sim

    xgi = sim.import_xgi()
    sim.install_watchdog()
    ncls = len(HASHSEEDS)
    out = open(outfile, "w")
    t0 = time.time()
    nviol = 0
    for index in range(nruns):
        if index % ncls != cls or (index // ncls) % nslots != slot:
            continue
        if nviol >= 3:
            break  # three minimised violations per worker are enough to report
        try:
            res, s = one_run(prop, tier, verif_seed, index, xgi)
        except Exception as ex:  # harness error, reported apart from violations
            out.write(json.dumps({"index": index, "harness_error": f"{type(ex).__name__}: {ex}",
                                  "trace": traceback.format_exc()[-2000:]}) + "\n")
            out.flush()
            continue
        line = {
            "index": index, "seed": res["seed"], "verdict": res["verdict"], "digest": res["digest"],
            "steps": res["steps"], "stats": res["stats"], "probes": res["probes"],
            "states": res["states"], "trigrams": res["trigrams"], "known": res["known"],
            "collateral": [f["fingerprint"] + " " + ",".join(f["props"]) for f in res["findings"]
                           if prop not in f["props"]][:3],
            "extra": res.get("extra", {}),
        }
        if index < 2 * ncls * nslots and len(s.ops) > 0:
            line["sample_ops"] = s.ops[:12]
        if res["verdict"] == "violation":
            nviol += 1
            fp = res["violation"]["fingerprint"]
            try:
                ops, tests = minimise.ddmin(prop, res["cfg"], s.ops, fp, xgi, s.hooks,
                                            budget=400 if nviol == 1 else 60)
            except Exception:
                ops, tests = s.ops, -1
            replay = {
                "property": prop, "clause": res["violation"]["clause"], "fingerprint": fp,
                "detail": res["violation"]["detail"], "verif_seed": verif_seed, "index": index,
                "seed": res["seed"], "hashseed": HASHSEEDS[cls], "tier": tier, "cfg": res["cfg"],
                "ops": ops, "original_len": len(s.ops), "minimise_tests": tests,
            }
            d8 = hashlib.sha256(json.dumps(ops, sort_keys=True).encode()).hexdigest()[:8]
            os.makedirs(os.path.join(ROOT, "replays"), exist_ok=True)
            path = os.path.join(ROOT, "replays", f"{prop}-{res['seed']}-{d8}.json")
            with open(path, "w") as f:
                json.dump(replay, f, indent=1)
            line["replay"] = path
            line["violation"] = res["violation"]
        out.write(json.dumps(line) + "\n")
        out.flush()
    out.write(json.dumps({"done": True, "wall": time.time() - t0, "stopped_early": nviol >= 3}) + "\n")
    out.close()


# ---------------------------------------------------------------------------
def replay_main(path, quiet=False):
    """Re-exec under the recorded hash seed, run the recorded ops, exit 1 iff the recorded
    fingerprint reproduces."""
    with open(path) as f:
        rp = json.load(f)
    if os.environ.get("PYTHONHASHSEED") != rp["hashseed"]:
        env = dict(os.environ, PYTHONHASHSEED=rp["hashseed"])
        r = subprocess.run([PY, os.path.join(ROOT, "check"), "--replay", path] + (["--quiet"] if quiet else []),
                           env=env)
        sys.exit(r.returncode)
    from . import minimise, sim

    xgi = sim.import_xgi()
    sim.install_watchdog()
    res = minimise.replay_ops(rp["property"], rp["cfg"], rp["ops"], xgi, hooks_for(rp["property"]))
    v = res.get("violation")
    if v is not None and v["fingerprint"] == rp["fingerprint"]:
        if not quiet:
            print(f"replay reproduces: {v['fingerprint']}\n  {v['detail']}")
            print(f"VIOLATION property={rp['property']} replay={path}")
        sys.exit(1)
    if not quiet:
        print(f"replay does NOT reproduce {rp['fingerprint']}; got verdict {res['verdict']} {v}")
    sys.exit(0)


# ---------------------------------------------------------------------------
def check_main(prop, tier, workers=16, nruns=None, evidence=True):
    t0 = time.time()
    verif_seed = int(os.environ.get("VERIF_SEED", "0"))
    if nruns is None:
        q, th = BUDGET[prop]
        nruns = q if tier == "quick" else th
        if os.environ.get("VERIF_RUNS"):
            nruns = int(os.environ["VERIF_RUNS"])
    ncls = len(HASHSEEDS)
    nslots = max(1, workers // ncls)
    tmpdir = os.path.join("/dev/shm", f"xgiverif-{os.getpid()}")
    os.makedirs(tmpdir, exist_ok=True)
    procs = []
    wall_cap = int(os.environ.get("VERIF_WALL_CAP", "900" if tier == "quick" else "7200"))
    for cls in range(ncls):
        for slot in range(nslots):
            outfile = os.path.join(tmpdir, f"w{cls}_{slot}.jsonl")
            env = dict(os.environ, PYTHONHASHSEED=HASHSEEDS[cls], OMP_NUM_THREADS="1",
                       OPENBLAS_NUM_THREADS="1", MKL_NUM_THREADS="1", MPLBACKEND="Agg",
                       VERIF_WORKER_TIMEOUT=str(wall_cap))
            p = subprocess.Popen([PY, os.path.join(ROOT, "check"), "--worker", prop, tier, str(verif_seed),
                                  str(cls), str(slot), str(nslots), str(nruns), outfile],
                                 env=env, stdout=subprocess.DEVNULL, stderr=subprocess.PIPE)
            procs.append((p, outfile, cls, slot))
    harness = []
    deadline = time.time() + wall_cap + 30
    for p, outfile, cls, slot in procs:
        try:
            _, err = p.communicate(timeout=max(1, deadline - time.time()))
        except subprocess.TimeoutExpired:
            p.kill()
            _, err = p.communicate()
            harness.append(f"worker {cls}/{slot} timed out")
            continue
        if p.returncode != 0:
            harness.append(f"worker {cls}/{slot} exit {p.returncode}: {err.decode(errors='replace')[-1500:]}")
    lines = []
    for p, outfile, cls, slot in procs:
        done = False
        try:
            with open(outfile) as f:
                for ln in f:
                    d = json.loads(ln)
                    if d.get("done"):
                        done = True
                    else:
                        d["hashseed"] = HASHSEEDS[cls]
                        lines.append(d)
        except FileNotFoundError:
            pass
        if not done:
            harness.append(f"worker {cls}/{slot} did not finish")
    for p, outfile, cls, slot in procs:
        try:
            os.unlink(outfile)
        except OSError:
            pass
    try:
        os.rmdir(tmpdir)
    except OSError:
        pass
    lines.sort(key=lambda d: d["index"])
    for d in lines:
        if "harness_error" in d:
            harness.append(f"run {d['index']}: {d['harness_error']}\n{d.get('trace', '')}")

    verdicts = Counter(d.get("verdict", "harness") for d in lines)
    stats, probes = Counter(), Counter()
    states, trigrams = set(), set()
    known = {}
    violations = []
    samples = []
    collateral = Counter()
    collateral_at = {}
    extra_acc = {}
    steps = 0
    for d in lines:
        if "harness_error" in d:
            continue
        steps += d["steps"]
        stats.update(d["stats"])
        probes.update(d["probes"])
        states.update(d["states"])
        trigrams.update(d["trigrams"])
        for c in d.get("collateral", []):
            collateral[c] += 1
            collateral_at.setdefault(c, d["index"])
        for k in d["known"]:
            known.setdefault(k["what"], k)
        if d.get("violation"):
            violations.append(d)
        if "sample_ops" in d and len(samples) < 3:
            samples.append({"index": d["index"], "hashseed": d["hashseed"], "ops": d["sample_ops"]})
        for k, v in d.get("extra", {}).items():
            if isinstance(v, dict):
                acc = extra_acc.setdefault(k, Counter())
                acc.update(v)
            elif isinstance(v, (int, float)):
                extra_acc[k] = extra_acc.get(k, 0) + v
    wall = time.time() - t0

    # ---- re-verify violations in a fresh interpreter ----
    confirmed = []
    unreplayed = []
    for d in violations[:8]:
        # a violation whose cause lies outside the seams (e.g. OS entropy inside a dependency)
        # may need more than one attempt to show again: up to four replays
        for attempt in range(4):
            r = subprocess.run([PY, os.path.join(ROOT, "check"), "--replay", d["replay"], "--quiet"],
                               env=dict(os.environ, PYTHONHASHSEED=d["hashseed"]))
            if r.returncode == 1:
                break
        d["replay_attempts"] = attempt + 1
        if r.returncode == 1:
            confirmed.append(d)
            if len(confirmed) >= 5:
                break
        else:
            unreplayed.append(d)
    if violations and not confirmed:
        # nothing replays: the recorded runs depend on something outside the seams
        for d in unreplayed:
            harness.append(f"violation of run {d['index']} did not replay in a fresh interpreter: {d['replay']}")
    for d in unreplayed:
        try:
            os.unlink(d["replay"])
        except OSError:
            pass

    nontrivial = len(states)
    if evidence:
        ev = {
            "property_id": prop,
            "tier": tier,
            "seed": verif_seed,
            "level": "exploration",
            "wall_s": round(wall, 2),
            "violations": len(confirmed),
            "coverage": {
                "evaluations": len(lines),
                "distinct_nontrivial": nontrivial,
                "rule": ("one evaluation = one simulated run (seeded op-and-fault sequence on a small world "
                         "of live xgi objects + reference models); distinct_nontrivial = number of distinct "
                         "(class, node order, edge order, members) states reached by any actor after a "
                         "mutation, counted by md5 of the canonical snapshot over the whole batch"),
                "samples": samples or [{"note": "no run recorded ops"}],
                "simulated_steps": steps,
                "runs_per_hour": round(len(lines) / wall * 3600) if wall > 0 else 0,
                "steps_per_hour": round(steps / wall * 3600) if wall > 0 else 0,
                "simulated_time": ("xgi has no clock, timer or deadline: simulated time is the step counter "
                                   f"({steps} steps)"),
                "verdicts": dict(verdicts),
                "distinct_op_trigrams": len(trigrams),
                "op_histogram": {k[3:]: v for k, v in sorted(stats.items()) if k.startswith("op:")},
                "faults_configured": {k.split(":", 1)[1]: v for k, v in sorted(stats.items())
                                      if k.startswith("fault_configured:")},
                "faults_fired": {k.split(":", 1)[1]: v for k, v in sorted(stats.items())
                                 if k.startswith("fault_fired:")},
                "outcomes": {k.split(":", 1)[1]: v for k, v in sorted(stats.items()) if k.startswith("outcome:")},
                "other_counters": {k: v for k, v in sorted(stats.items())
                                   if not k.startswith(("op:", "fault_", "outcome:"))},
                "rare_condition_probes": dict(sorted(probes.items())),
                "collateral_findings_of_other_properties": dict(collateral.most_common(10)),
                "known_findings_hit": sorted(known),
                "hash_seeds": HASHSEEDS,
                "workers": ncls * nslots,
                "real_vs_stub": {
                    "real": ["all of xgi (imported from XGI_SRC, default /repo working tree)", "numpy",
                             "scipy", "pandas", "networkx", "json", "python io buffering/text layers",
                             "MT19937 (real mode)"],
                    "stub": ["caller-supplied streams (one-shot / poisoned / dying iterators)",
                             "raw file device (SimFS, C11 only)", "scripted random.random (C16 adversarial mode)"],
                },
                "extra": {k: (dict(v) if isinstance(v, Counter) else v) for k, v in extra_acc.items()},
            },
            "assumptions": [
                "reference models transcribe the xgi docstrings (DESIGN.md appendix A); automatic IDs and "
                "unspecified orders are adopted from the SUT, not predicted",
                "sampling, not enumeration: a clean batch is evidence, not proof",
                "no caller threads and no asynchronous exceptions are simulated (DESIGN.md section 1)",
            ],
        }
        os.makedirs(os.path.join(ROOT, "evidence"), exist_ok=True)
        with open(os.path.join(ROOT, "evidence", f"{prop}.json"), "w") as f:
            json.dump(ev, f, indent=1, default=repr)

    print(f"[{prop}/{tier}] runs={len(lines)} steps={steps} states={len(states)} wall={wall:.1f}s "
          f"verdicts={dict(verdicts)}")
    zero = [k for k in expected_probes(prop) if probes.get(k, 0) == 0]
    if zero:
        print(f"  note: rare-condition probes at zero: {zero}")
    for c, k in collateral.most_common(5):
        # not this check's verdict (the finding is tagged with other properties only), but shown:
        # on the unchanged tree it needs the same triage as a violation
        print(f"  note: finding of another property in this world: {c} x{k} (first at index {collateral_at[c]})")
    for what, k in sorted(known.items()):
        print(f"KNOWN-FINDING: property={prop} {what}")
    if harness:
        for h in harness[:5]:
            print("HARNESS-ERROR:", h, file=sys.stderr)
        print(f"[{prop}] harness errors: {len(harness)} (no verdict)")
        return 2
    if confirmed:
        for d in confirmed:
            print(f"  violation: {d['violation']['fingerprint']}: {d['violation']['detail'][:300]}" +
                  (f" [reproduced on replay attempt {d['replay_attempts']}: not fully deterministic]"
                   if d.get("replay_attempts", 1) > 1 else ""))
            print(f"VIOLATION property={prop} replay={d['replay']}")
        return 1
    if len(lines) != nruns:
        print(f"[{prop}] expected {nruns} runs, got {len(lines)}", file=sys.stderr)
        return 2
    return 0


def expected_probes(prop):
    h = hooks_for(prop)
    return getattr(h, "EXPECTED_PROBES", []) if h is not None else []
