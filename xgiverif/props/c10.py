"""C10 -- conversions between representations preserve the incidence relation.

Converter round trips and class-to-class constructions are derive transitions: the result is
compared at birth with the model's projection pi_R (what representation R keeps) and then joins
the world and keeps being edited (a converter that leaves the ID counter stale is caught by the
C04 oracle a few steps later).  For from_bipartite_graph the construction order of the networkx
graph (which side's vertices and which edge endpoints come first) is chosen by the scheduler.
"""
import random
import warnings
from copy import deepcopy

from .. import engine as E
from .. import models as M
from ..labels import canon, csort
from ..snap import integrity, snapshot
from . import common

EXTRA_OPS = {"convert", "twin", "big_complex"}
EXPECTED_PROBES = ["convert_source_with_empty_edge", "convert_source_with_isolated_node",
                   "bipartite_graph_edge_vertices_first", "dict_cast_collision_expected"]
REPS = {
    "H": ["edge_list", "edge_dict", "bip_edgelist", "inc_matrix", "bip_graph", "dataframe", "std_dict", "hif_dict",
          "to_SC", "ctor_list", "ctor_dict", "ctor_df", "ctor_matrix"],
    "SC": ["edge_dict", "bip_edgelist", "inc_matrix", "bip_graph", "std_dict", "hif_dict", "to_H", "edge_list_sc"],
    "DH": ["bip_edgelist", "bip_graph", "hif_dict", "to_H", "edge_dict_dh"],
}


def configure(cfg, r, tier):
    cfg["initial"] = [r.choice(["H", "H", "H", "SC", "DH"]) for _ in range(r.choice([1, 2]))]
    cfg["faults"] = False
    cfg["steps"] = r.randint(10, 36) if tier == "quick" else r.randint(20, 90)
    cfg["p_convert"] = r.choice([0.25, 0.4])
    cfg["json_attrs"] = True
    for k in ("H", "DH", "SC"):
        cfg["ops"][k]["set_net_attr"] = 2.0
        cfg["ops"][k]["freeze"] = 0.4  # frozen networks are converted like any other
    cross_profile(cfg, r, 0.15)


def cross_profile(cfg, r, p):
    """nodes of one label type and edge IDs of the other, with overlapping string forms (the
    casts nodetype / edgetype then differ)"""
    if r.random() < p:
        cfg["profile"] = r.choice(["cross_is", "cross_si", "cross_if", "cross_fi"])
        if cfg["profile"] in ("cross_is", "cross_if"):
            # every edge gets an explicit (string) ID, otherwise the IDs are not of one type
            cfg["explicit_idx_rate"] = 1.0
            cfg["bulk_fmts"] = [2, 4, 5]
            for k in ("H", "DH", "SC"):
                for op in ("add_weighted_edges_from", "add_weighted_simplices_from", "alias_add_weighted_edges_from",
                           "dup_edge", "near_dup_edge", "add_node_to_edge"):
                    cfg["ops"][k].pop(op, None)


def next_record(sim):
    g = sim.gen
    w = sim.world
    if g.r.random() < 0.0006:
        return common.gen_big_complex(sim, ["hif_dict", "via_H"])
    if not w.actors or g.r.random() > sim.cfg["p_convert"]:
        return None
    free = [f"A{i}" for i in range(4) if f"A{i}" not in w.actors]
    if not free:
        return {"uid": g.next_uid(), "op": "drop", "actor": g.r.choice(list(w.actors))}
    src = g.r.choice(list(w.actors))
    kind = w.actors[src].kind
    rep = g.r.choice(REPS[kind])
    return {"uid": g.next_uid(), "op": "convert", "src": src, "new": free[0], "rep": rep,
            "argseed": g.r.randrange(1 << 30)}


# ---------------------------------------------------------------------------
def homogeneous(ids):
    ts = {type(i) for i in ids}
    if ts <= {int} and not any(isinstance(i, bool) for i in ids):
        return "int"
    if ts <= {str}:
        return "str"
    return None


def incidence_only(m, keep_ids=True, directed=False):
    """projection that keeps labelled incidences only (no isolated nodes, empty edges, attrs)"""
    out = M.DHModel() if directed else M.HModel()
    for e in m.edges:
        mem = m.all_members(e)
        if not mem:
            continue
        for n in csort(mem):
            out.nodes.setdefault(n, {})
        out.edges[e] = m._copy_members(m.edges[e]) if directed else set(mem)
        out.eattr[e] = {}
    return out


def do_convert(sim, rec):
    w = sim.world
    xgi = sim.xgi
    src = w.actors.get(rec["src"])
    if src is None:
        return None
    kind = src.kind
    rep = rec["rep"]
    if rep not in REPS[kind] or getattr(src, "sc_dirty", False):
        return None
    m = src.model
    A = src.sut
    r = random.Random(rec["argseed"])
    has_empty = any(len(m.all_members(e)) == 0 for e in m.edges)
    has_iso = any(not m.memberships(n) for n in m.nodes)
    if has_empty:
        w.probes["convert_source_with_empty_edge"] += 1
    if has_iso:
        w.probes["convert_source_with_isolated_node"] += 1
    # (labels as they appear inside the member sets count too: 4 and 4.0 are the same node but
    # cast to different strings)
    nt = homogeneous(list(m.nodes) + [x for e in m.edges for x in m.all_members(e)])
    et = homogeneous(list(m.edges))
    fake = dict(rec, op="convert:" + rep)
    new_kind = "H"
    exp = M.Exp(nodes_order_free=True, edges_order_free=True)
    expect = None
    expect_exc = None
    call = None
    relabel = None  # (node map, edge map) for positional representations

    if rep in ("edge_list", "ctor_list", "edge_list_sc"):
        if has_empty or not m.edges or nt is None:
            return None  # bare member lists: no empty edges, homogeneous labels (format sniffing)
        if rep == "edge_list":
            call = lambda: xgi.from_hyperedge_list(xgi.to_hyperedge_list(A))
        elif rep == "ctor_list":
            call = lambda: xgi.Hypergraph(xgi.to_hyperedge_list(A))
        else:
            new_kind = "SC"
            call = lambda: xgi.SimplicialComplex(xgi.to_hyperedge_list(A))
        if new_kind == "SC":
            expect = M.SCModel()
            items = [(csort(m.edges[e]), None, None) for e in m.edges]
            expect = "SC_FROM_ITEMS", items
        else:
            expect = M.HModel()
            for i, e in enumerate(m.edges):
                for n in csort(m.edges[e]):
                    expect.nodes.setdefault(n, {})
                expect.edges[i] = set(m.edges[e])
                expect.eattr[i] = {}
            exp = M.Exp(nodes_order_free=True)  # edge order is what a list carries
    elif rep in ("edge_dict", "ctor_dict"):
        if not m.edges:
            return None
        if any(isinstance(e, tuple) for e in m.edges) and kind == "SC":
            return None
        if rep == "edge_dict":
            call = (lambda: xgi.from_hyperedge_dict(xgi.to_hyperedge_dict(A))) if kind == "H" else \
                (lambda: xgi.from_simplex_dict(xgi.to_hyperedge_dict(A)))
        else:
            call = lambda: xgi.Hypergraph(xgi.to_hyperedge_dict(A))
        new_kind = kind if rep == "edge_dict" else "H"
        expect = (M.SCModel if new_kind == "SC" else M.HModel)()
        for e in m.edges:
            for n in csort(m.edges[e]):
                expect.nodes.setdefault(n, {})
            expect.edges[e] = expect._copy_members(m.edges[e])
            expect.eattr[e] = {}
        exp = M.Exp(nodes_order_free=True)
        if new_kind == "SC" and not m.is_closed():
            return None
    elif rep == "edge_dict_dh":
        return None
    elif rep == "bip_edgelist":
        if not any(m.all_members(e) for e in m.edges):
            return None
        call = lambda: xgi.from_bipartite_edgelist(xgi.to_bipartite_edgelist(A))
        new_kind = "DH" if kind == "DH" else "H"
        expect = incidence_only(m, directed=(kind == "DH"))
    elif rep in ("inc_matrix", "ctor_matrix"):
        if kind == "DH" or not m.edges or not m.nodes:
            return None
        sparse = r.random() < 0.5
        if rep == "inc_matrix":
            def call():
                I, rd, cd = xgi.to_incidence_matrix(A, sparse=sparse, index=True)
                return xgi.from_incidence_matrix(I, nodelabels=[rd[i] for i in range(len(rd))],
                                                 edgelabels=[cd[j] for j in range(len(cd))])
            expect = incidence_only(m)
        else:
            call = lambda: xgi.Hypergraph(xgi.to_incidence_matrix(A, sparse=sparse))
            npos = {n: i for i, n in enumerate(m.nodes)}
            expect = M.HModel()
            for j, e in enumerate(m.edges):
                mem = {npos[n] for n in m.edges[e]}
                if mem:
                    for i in sorted(mem):
                        expect.nodes.setdefault(i, {})
                    expect.edges[j] = mem
                    expect.eattr[j] = {}
    elif rep == "bip_graph":
        order = r.choice(["nodes_first", "edges_first", "shuffled"])
        flip = r.random() < 0.5
        if order != "nodes_first":
            w.probes["bipartite_graph_edge_vertices_first"] += 1

        def call():
            import networkx as nx
            G, nd, ed = xgi.to_bipartite_graph(A, index=True)
            # rebuild the same graph with a scheduler-chosen insertion order
            G2 = nx.DiGraph() if kind == "DH" else nx.Graph()
            nodes_side = [(v, d) for v, d in G.nodes(data=True) if d["bipartite"] == 0]
            edges_side = [(v, d) for v, d in G.nodes(data=True) if d["bipartite"] == 1]
            if order == "nodes_first":
                seq = nodes_side + edges_side
            elif order == "edges_first":
                seq = edges_side + nodes_side
            else:
                seq = nodes_side + edges_side
                r.shuffle(seq)
            for v, d in seq:
                G2.add_node(v, **d)
            es = list(G.edges)
            r.shuffle(es)
            for u, v in es:
                if kind != "DH" and flip and r.random() < 0.5:
                    G2.add_edge(v, u)
                else:
                    G2.add_edge(u, v)
            H2 = xgi.from_bipartite_graph(G2)
            H2._verif_maps = (nd, ed)
            return H2
        new_kind = "DH" if kind == "DH" else "H"
        # positional labels: node i <-> nd[i], edge j <-> ed[j]; isolated nodes are kept
        # (vertices of the bipartite graph), empty edges are vertices without links: lost
        npos = {n: i for i, n in enumerate(m.nodes)}
        epos = {e: len(m.nodes) + j for j, e in enumerate(m.edges)}
        expect = M.DHModel() if kind == "DH" else M.HModel()
        for n in m.nodes:
            expect.nodes[npos[n]] = {}
        for e in m.edges:
            if not m.all_members(e):
                continue
            if kind == "DH":
                t, h = m.edges[e]
                expect.edges[epos[e]] = ({npos[n] for n in t}, {npos[n] for n in h})
            else:
                expect.edges[epos[e]] = {npos[n] for n in m.edges[e]}
            expect.eattr[epos[e]] = {}
    elif rep in ("dataframe", "ctor_df"):
        def one_dtype(ids):
            ts = {type(i) for i in ids}
            return len(ts) == 1 and ts <= {int, str, float} and not any(i != i for i in ids if isinstance(i, float)) \
                and all(abs(i) < 2 ** 63 for i in ids if isinstance(i, int))

        if not any(m.all_members(e) for e in m.edges) or \
                not one_dtype(list(m.nodes) + [x for e in m.edges for x in m.all_members(e)]) or not one_dtype(list(m.edges)):
            return None  # pandas coerces mixed-type columns (each column is of one type here: int, str or float)
        if rep == "dataframe":
            call = lambda: xgi.from_bipartite_pandas_dataframe(xgi.to_bipartite_pandas_dataframe(A))
        else:
            call = lambda: xgi.Hypergraph(xgi.to_bipartite_pandas_dataframe(A))
        expect = incidence_only(m)
    elif rep == "std_dict":
        if nt is None or et is None:
            if nt is None and len({str(n) for n in m.nodes}) != len(m.nodes) or \
                    et is None and len({str(e) for e in m.edges}) != len(m.edges):
                w.probes["dict_cast_collision_expected"] += 1
                call = lambda: xgi.to_hypergraph_dict(A)
                expect_exc = "LIB"
            else:
                return None
        else:
            # a string cast may be left out or passed explicitly
            ntc = int if nt == "int" else (str if r.random() < 0.5 else None)
            etc = int if et == "int" else (str if r.random() < 0.5 else None)
            call = lambda: xgi.from_hypergraph_dict(xgi.to_hypergraph_dict(A), nodetype=ntc, edgetype=etc)
            expect = M.HModel()
            for n in m.nodes:
                expect.nodes[n] = deepcopy(m.nodes[n])
            for e in m.edges:
                expect.edges[e] = set(m.edges[e])
                expect.eattr[e] = deepcopy(m.eattr[e])
            expect.net = deepcopy(m.net)
    elif rep == "hif_dict":
        call = lambda: xgi.from_hif_dict(xgi.to_hif_dict(A))
        new_kind = kind
        expect = m.copy()
        expect.frozen = False
        if kind == "SC" and not m.is_closed():
            return None
    elif rep == "to_H":
        call = lambda: xgi.Hypergraph(A)
        expect = M.HModel()
        for n in m.nodes:
            expect.nodes[n] = deepcopy(m.nodes[n])
        for e in m.edges:
            expect.edges[e] = set(m.all_members(e))
            expect.eattr[e] = deepcopy(m.eattr[e])
        expect.net = deepcopy(m.net)
        exp = M.Exp()
    elif rep == "to_SC":
        if any(isinstance(e, tuple) for e in m.edges):
            return None
        call = lambda: xgi.SimplicialComplex(A)
        new_kind = "SC"
        items = [(csort(m.edges[e]), e, deepcopy(m.eattr[e])) for e in m.edges]
        expect = "SC_FROM_H", items
    else:
        return None

    new, exc, _ = common.quiet_call(call)
    w.stats[f"op:convert.{rep}.{kind}"] += 1
    w.logev("convert", rec["uid"], rec["src"], rec["new"], rep, "ok" if exc is None else type(exc).__name__)
    if expect_exc is not None:
        if exc is None:
            w.find({"C10"}, "colliding_casts_accepted", fake, kind, "to_hypergraph_dict must refuse IDs whose string casts collide")
        elif not E.is_lib_exc(xgi, exc):
            w.find({"C10"}, "wrong_error_type", fake, kind, f"{type(exc).__name__}: {exc}")
        return None
    if exc is not None:
        w.find({"C10"}, "conversion_failed", fake, kind, f"{rep}: {type(exc).__name__}: {exc}")
        return None
    try:
        got_kind = E.kind_of(new)
    except TypeError:
        w.find({"C10"}, "conversion_returned_non_network", fake, kind, repr(type(new)))
        return None
    if got_kind != new_kind:
        w.find({"C10"}, "class_not_preserved", fake, kind, f"{rep}: expected {new_kind}, got {got_kind}")
        return None
    snap, anomalies = snapshot(new)
    bad = [(a[0], f"{a[1]!r} {a[2]}") for a in anomalies] + integrity(snap)
    for clause, detail in bad:
        w.find({"C10", E.INTEGRITY_PROP[new_kind]}, "born_" + clause, fake, new_kind, detail)
    if bad:
        return None
    if isinstance(expect, tuple):
        # target is a simplicial complex: run the simplicial model on the items
        tag, items = expect
        base = M.SCModel()
        if tag == "SC_FROM_H":
            for n in m.nodes:
                base.nodes[n] = deepcopy(m.nodes[n])
            base.net = deepcopy(m.net)
        pre = {"edges": [], "members": {}}
        factory, _ = E._fresh_factory(pre, snap, "SC")
        chosen = None
        for mm, ex2, rej, nofresh in E.run_model_alternatives(
                base, "add_simplices_from", {"fmt": 4 if tag == "SC_FROM_H" else 1, "items": items, "attr": {},
                                             "max_order": None}, factory):
            if nofresh or rej is not None:
                continue
            d = E.compare(snap, mm, M.Exp(nodes_order_free=True, edges_order_free=True), check_order=False)
            if not d:
                chosen = mm
                break
            first = d
        if chosen is None:
            for clause, detail in (first if "first" in dir() else [("edge_set", "no model alternative matches")]):
                w.find({"C10"}, "born_" + clause, fake, new_kind, f"{rep}: {detail}")
            chosen = M.model_from_snapshot(new_kind, snap)
        model = chosen
    else:
        diffs = E.compare(snap, expect, exp, check_order=True)
        for clause, detail in diffs:
            w.find({"C10"}, "born_" + clause, fake, new_kind, f"{rep}: {detail}")
        model = expect if not diffs else M.model_from_snapshot(new_kind, snap)
    model.frozen = False
    act = common.add_actor(sim, rec["new"], new, model, "conv:" + rep)
    if set(model.nodes) == set(snap["nodes"]) and set(model.edges) == set(snap["edges"]):
        E.adopt_order(model, snap)
    act.tainted = True
    src.tainted = True
    return rec["new"]


def exec_extra(sim, rec):
    if rec["op"] == "twin":
        return common.do_twin(sim, rec)
    if rec["op"] == "big_complex":
        return common.do_big_complex(sim, rec, {"C10"})
    return do_convert(sim, rec)
