"""C09 -- structural measures are invariant under relabelling and insertion order.

Replica pair: replica A is a history-reached hypergraph (gapped / mixed / explicit IDs, removed
and re-added IDs, empty edges ...); replica B receives the *same logical network* with the
construction operations delivered in a scheduler-chosen permuted order (nodes, edges, members
within each edge, through different API routes) under node and edge bijections drawn from:
other integers, a non-identity permutation of 0..m-1, gapped integers, strings.  Every measure
named by the property is evaluated on both and compared through the bijection; "both raise the
same exception type" counts as agreement.  The pair is repeated under four worker hash seeds.
"""
import math
import random
import warnings

import numpy as np

from .. import engine as E
from ..labels import canon, csort
from . import common

EXTRA_OPS = {"replica"}
EXPECTED_PROBES = ["replica_edge_ids_permutation_of_range", "replica_with_string_labels", "replica_source_gapped_ids",
                   "replica_with_duplicate_edges"]
MEASURES = ["degree", "size", "average_neighbor_degree", "clustering_coefficient", "local_clustering_coefficient",
            "two_node_clustering_coefficient", "components", "shortest_paths", "density", "incidence_density",
            "assortativity", "dynamical_assortativity", "simpliciality", "maximal", "duplicates", "katz",
            "incidence_matrix", "adjacency_matrix", "laplacians", "intersection_profile", "degree_matrix",
            "clique_motif_matrix", "misc_properties"]


def configure(cfg, r, tier):
    cfg["initial"] = ["H"]
    cfg["faults"] = False
    cfg["profile"] = r.choice(["ints", "ints", "strs", "mixed"])
    cfg["steps"] = r.randint(8, 30) if tier == "quick" else r.randint(15, 60)
    cfg["p_replica"] = r.choice([0.2, 0.35])
    cfg["numeric_attrs"] = True
    cfg["n_measures"] = r.choice([4, 6, 8])
    t = cfg["ops"]["H"]
    for op in ("cleanup", "convert_labels_to_integers", "largest_connected_hypergraph", "clear", "freeze"):
        t.pop(op, None)
    t["dup_edge"] = 2.0
    if r.random() < 0.4:
        cfg["max_members"] = 7  # sets of five to seven members change their table size when copied


def next_record(sim):
    g = sim.gen
    w = sim.world
    names = [n for n, a in w.actors.items() if a.kind == "H"]
    if not names or g.r.random() > sim.cfg["p_replica"]:
        return None
    return {"uid": g.next_uid(), "op": "replica", "actor": g.r.choice(names), "seed": g.r.randrange(1 << 30)}


# ---------------------------------------------------------------------------
def bijection(r, ids, kind):
    ids = list(ids)
    k = len(ids)
    if kind == "other_ints":
        vals = r.sample(range(100, 100 + 3 * k + 3), k)
    elif kind == "perm_range":
        vals = list(range(k))
        r.shuffle(vals)
        if k > 1 and vals == sorted(vals) and all(isinstance(i, int) for i in ids) and ids == vals:
            vals[0], vals[1] = vals[1], vals[0]
    elif kind == "negatives":
        # -1 and -2 have the same hash in CPython
        vals = [-(i + 1) for i in range(k)]
        r.shuffle(vals)
    elif kind == "gapped":
        start = r.randint(0, 5)
        vals = [start + 3 * i for i in range(k)]
        r.shuffle(vals)
    else:
        vals = [f"{'n' if kind == 'strs_n' else 'x'}{i}" for i in range(k)]
        # some of the names are strings the library itself uses (fuzzing dictionary of the tree)
        from ..dictionary import weighted
        ws = weighted()
        if ws and r.random() < 0.6:
            for i in r.sample(range(k), min(k, r.randint(1, 4))):
                cand = r.choice(ws)
                if cand not in vals:
                    vals[i] = cand
        r.shuffle(vals)
    return dict(zip(ids, vals))


def build_replica(xgi, r, m, f, g):
    """same logical network, permuted construction order, through a scheduler-chosen route"""
    B = xgi.Hypergraph()
    nodes = list(m.nodes)
    edges = list(m.edges)
    r.shuffle(nodes)
    r.shuffle(edges)
    route = r.choice(["nodes_first", "edges_first", "mixed"])
    if route == "nodes_first":
        B.add_nodes_from([f[n] for n in nodes])

    def mem(e):
        x = [f[n] for n in m.edges[e]]
        r.shuffle(x)
        return x

    how = r.choice(["add_edge", "dict", "tuples", "add_node_to_edge"])
    if how == "add_edge":
        for e in edges:
            B.add_edge(mem(e), idx=g[e])
    elif how == "dict":
        B.add_edges_from({g[e]: mem(e) for e in edges})
    elif how == "tuples":
        if edges:
            B.add_edges_from([(mem(e), g[e]) for e in edges])
    else:
        for e in edges:
            x = mem(e)
            if not x:
                B.add_edge([], idx=g[e])
            for n in x:
                B.add_node_to_edge(g[e], n)
    if route != "nodes_first":
        B.add_nodes_from([f[n] for n in nodes])
    # attributes (weights) belong to the logical network too
    from copy import deepcopy
    B.set_node_attributes({f[n]: deepcopy(a) for n, a in m.nodes.items() if a})
    B.set_edge_attributes({g[e]: deepcopy(a) for e, a in m.eattr.items() if a})
    return B


def close(a, b):
    if isinstance(a, (int, float, np.integer, np.floating)) and isinstance(b, (int, float, np.integer, np.floating)):
        a, b = float(a), float(b)
        if math.isnan(a) and math.isnan(b):
            return True
        if math.isinf(a) or math.isinf(b):
            return a == b
        return abs(a - b) <= 1e-9 * max(1.0, abs(a), abs(b)) + 1e-12
    return a == b


def cmp_node_dict(da, db, f):
    if set(f[n] for n in da) != set(db):
        return f"keys differ: {csort(da)!r} -> {csort(db)!r}"
    for n in da:
        if not close(da[n], db[f[n]]):
            return f"node {n!r} (as {f[n]!r}): {da[n]!r} vs {db[f[n]]!r}"
    return None


def matrix_through_maps(M_a, rows_a, cols_a, M_b, rows_b, cols_b, fr, fc):
    """compare two labelled matrices up to the induced row / column permutation"""
    A = M_a.toarray() if hasattr(M_a, "toarray") else np.asarray(M_a)
    B = M_b.toarray() if hasattr(M_b, "toarray") else np.asarray(M_b)
    if A.shape != B.shape:
        return f"shapes {A.shape} vs {B.shape}"
    inv_rb = {lab: i for i, lab in rows_b.items()}
    inv_cb = {lab: j for j, lab in cols_b.items()}
    for i, rl in rows_a.items():
        for j, cl in cols_a.items():
            bi, bj = inv_rb.get(fr[rl]), inv_cb.get(fc[cl])
            if bi is None or bj is None:
                return f"label {rl!r}/{cl!r} missing in the replica's index maps"
            if not close(A[i, j], B[bi, bj]):
                return f"entry ({rl!r}, {cl!r}): {A[i, j]!r} vs {B[bi, bj]!r}"
    return None


def evaluate(xgi, name, H, r):
    """returns a structure comparable through the bijections: ('scalar', v) | ('nodes', dict) |
    ('edges', dict) | ('nodesets', set of frozensets) | ('matrix', M, rows, cols, rowkind, colkind)"""
    if name == "degree":
        o = r.choice([None, 0, 1, 2])
        wt = r.choice([None, None, "weight", "w"])
        return ("nodes", H.nodes.degree(order=o, weight=wt).asdict())
    if name == "size":
        d = r.choice([None, 1, 2])
        return ("edges", H.edges.size(degree=d).asdict())
    if name == "average_neighbor_degree":
        return ("nodes", H.nodes.average_neighbor_degree.asdict())
    if name == "clustering_coefficient":
        return ("nodes", xgi.clustering_coefficient(H))
    if name == "local_clustering_coefficient":
        return ("nodes", xgi.local_clustering_coefficient(H))
    if name == "two_node_clustering_coefficient":
        return ("nodes", xgi.two_node_clustering_coefficient(H, kind=r.choice(["union", "min", "max"])))
    if name == "components":
        comps = {frozenset(c) for c in xgi.connected_components(H)}
        return ("nodesets+", (comps, xgi.number_connected_components(H), xgi.is_connected(H),
                              len(xgi.largest_connected_component(H))))
    if name == "shortest_paths":
        d = xgi.shortest_path_length(H)
        d = dict(d) if not isinstance(d, dict) else d
        return ("nodepairs", {u: dict(v) for u, v in d.items()})
    if name == "density":
        kw = r.choice([{}, {"order": 1}, {"order": 2}, {"max_order": 2}, {"ignore_singletons": True},
                       {"max_order": 1, "ignore_singletons": True}])
        return ("scalar", xgi.density(H, **kw))
    if name == "incidence_density":
        kw = r.choice([{}, {"order": 1}, {"max_order": 2}, {"ignore_singletons": True}])
        return ("scalar", xgi.incidence_density(H, **kw))
    if name == "assortativity":
        return ("scalar", xgi.degree_assortativity(H, kind=r.choice(["uniform", "top-2", "top-bottom"]), exact=True))
    if name == "dynamical_assortativity":
        return ("scalar", xgi.dynamical_assortativity(H))
    if name == "simpliciality":
        kw = {"min_size": r.choice([1, 2, 3]), "exclude_min_size": r.random() < 0.5}
        which = r.choice(["edit_simpliciality", "simplicial_fraction", "face_edit_simpliciality"])
        return ("scalar", getattr(xgi, which)(H, **kw))
    if name == "maximal":
        return ("edgeset", set(H.edges.maximal(strict=r.random() < 0.5)))
    if name == "duplicates":
        classes = {}
        for e, mem in H.edges.members(dtype=dict).items():
            classes.setdefault(frozenset(mem), set()).add(e)
        dup = set(H.edges.duplicates())
        return ("dupcount", {frozenset(ids): len(dup & ids) for ids in classes.values()})
    if name == "katz":
        return ("nodes", xgi.katz_centrality(H, cutoff=30))
    if name == "incidence_matrix":
        kw = {"order": r.choice([None, 1, 2]), "sparse": r.random() < 0.5}
        if r.random() < 0.4:
            # a weight callback that depends on the node and the edge through label-free
            # quantities only (degree and size), so that relabelling permutes the weights with them
            kw["weight"] = lambda n, e, G: 10.0 * len(G.nodes.memberships(n)) + len(G.edges.members(e)) \
                + 100.0 * sum(len(G.edges.members(f)) for f in G.nodes.memberships(n))
        M, rd, cd = xgi.incidence_matrix(H, index=True, **kw)
        return ("matrix", M, rd, cd, "n", "e")
    if name == "adjacency_matrix":
        kw = {"order": r.choice([None, 1]), "sparse": r.random() < 0.5, "s": r.choice([1, 2]), "weighted": r.random() < 0.5}
        M, rd = xgi.adjacency_matrix(H, index=True, **kw)
        return ("matrix", M, rd, rd, "n", "n")
    if name == "laplacians":
        which = r.choice(["laplacian", "multiorder", "normalized"])
        if which == "laplacian":
            M, rd = xgi.laplacian(H, order=r.choice([1, 2]), sparse=r.random() < 0.5,
                                  rescale_per_node=r.random() < 0.5, index=True)
        elif which == "multiorder":
            M, rd = xgi.multiorder_laplacian(H, [1, 2], [1.0, 0.5], sparse=r.random() < 0.5, index=True)
        else:
            M, rd = xgi.normalized_hypergraph_laplacian(H, sparse=r.random() < 0.5, weighted=r.random() < 0.6,
                                                        index=True)
        return ("matrix", M, rd, rd, "n", "n")
    if name == "intersection_profile":
        M, cd = xgi.intersection_profile(H, order=r.choice([None, 1]), sparse=r.random() < 0.5, index=True)
        return ("matrix", M, cd, cd, "e", "e")
    if name == "degree_matrix":
        M, rd = xgi.degree_matrix(H, order=r.choice([None, 1]), index=True)
        M = np.asarray(M).reshape(-1, 1)
        return ("matrix", M, rd, {0: "__col__"}, "n", "c")
    if name == "clique_motif_matrix":
        M, rd = xgi.clique_motif_matrix(H, sparse=r.random() < 0.5, index=True)
        return ("matrix", M, rd, rd, "n", "n")
    if name == "misc_properties":
        return ("scalar_tuple", (xgi.max_edge_order(H), tuple(xgi.unique_edge_sizes(H)), xgi.is_uniform(H),
                                 tuple(xgi.degree_histogram(H)[0]), tuple(xgi.degree_histogram(H)[1]),
                                 xgi.num_edges_order(H, 1), tuple(xgi.degree_counts(H))))
    raise KeyError(name)


def agree(ra, rb, f, g):
    kind = ra[0]
    if kind != rb[0]:
        return f"result kinds {kind} vs {rb[0]}"
    if kind == "scalar":
        return None if close(ra[1], rb[1]) else f"{ra[1]!r} vs {rb[1]!r}"
    if kind == "scalar_tuple":
        return None if all(close(x, y) if not isinstance(x, tuple) else x == y for x, y in zip(ra[1], rb[1])) and \
            len(ra[1]) == len(rb[1]) else f"{ra[1]!r} vs {rb[1]!r}"
    if kind == "nodes":
        return cmp_node_dict(ra[1], rb[1], f)
    if kind == "edges":
        return cmp_node_dict(ra[1], rb[1], g)
    if kind == "edgeset":
        return None if {g[e] for e in ra[1]} == rb[1] else f"{csort(ra[1])!r} -> {csort(rb[1])!r}"
    if kind == "dupcount":
        a = {frozenset(g[e] for e in ids): c for ids, c in ra[1].items()}
        return None if a == rb[1] else f"{ra[1]!r} vs {rb[1]!r}"
    if kind == "nodesets+":
        (ca, na, ia, la), (cb, nb, ib, lb) = ra[1], rb[1]
        if {frozenset(f[n] for n in c) for c in ca} != cb:
            return "components differ"
        return None if (na, ia, la) == (nb, ib, lb) else f"{(na, ia, la)!r} vs {(nb, ib, lb)!r}"
    if kind == "nodepairs":
        da, db = ra[1], rb[1]
        if {f[u] for u in da} != set(db):
            return "sources differ"
        for u in da:
            err = cmp_node_dict(da[u], db[f[u]], f)
            if err:
                return f"from {u!r}: {err}"
        return None
    if kind == "matrix":
        _, Ma, rda, cda, rk, ck = ra
        _, Mb, rdb, cdb, _, _ = rb
        fr = f if rk == "n" else g if rk == "e" else {"__col__": "__col__"}
        fc = f if ck == "n" else g if ck == "e" else {"__col__": "__col__"}
        return matrix_through_maps(Ma, rda, cda, Mb, rdb, cdb, fr, fc)
    return f"unknown kind {kind}"


def M_orderable(ids):
    try:
        sorted(ids)
        return True
    except Exception:
        return False


def do_replica(sim, rec):
    w = sim.world
    xgi = sim.xgi
    act = w.actors.get(rec["actor"])
    if act is None or act.kind != "H":
        return None
    m = act.model
    r = random.Random(rec["seed"])
    nk = r.choice(["other_ints", "perm_range", "gapped", "strs_n", "negatives"])
    ek = r.choice(["other_ints", "perm_range", "perm_range", "gapped", "strs_e", "negatives"])
    f = bijection(r, m.nodes, nk)
    g = bijection(r, m.edges, ek)
    if ek == "perm_range":
        w.probes["replica_edge_ids_permutation_of_range"] += 1
    if nk.startswith("strs") or ek.startswith("strs"):
        w.probes["replica_with_string_labels"] += 1
    ints = [e for e in m.edges if isinstance(e, int)]
    if ints and sorted(ints) != list(range(len(ints))):
        w.probes["replica_source_gapped_ids"] += 1
    if len({frozenset(v) for v in m.edges.values()}) != len(m.edges):
        w.probes["replica_with_duplicate_edges"] += 1
    with warnings.catch_warnings():
        warnings.simplefilter("ignore")
        try:
            B = build_replica(xgi, r, m, f, g)
        except Exception as ex:  # noqa
            w.stats["replica_construction_failed"] += 1
            return rec["actor"]
        # sanity: B is the same logical network
        if {g[e]: {f[n] for n in mem} for e, mem in m.edges.items()} != B.edges.members(dtype=dict) or \
                {f[n] for n in m.nodes} != set(B.nodes):
            w.stats["replica_construction_mismatch"] += 1
            return rec["actor"]
        if r.random() < 0.15:
            # "for all hypergraphs": a frozen one is a hypergraph with the same incidence relation
            B.freeze()
            w.probes["replica_frozen"] += 1
        names = r.sample(MEASURES, min(len(MEASURES), sim.cfg.get("n_measures", 5)))
        if not M_orderable(list(m.nodes)):
            # the simpliciality measures are defined for orderable node labels only
            names = [x for x in names if x != "simpliciality"]
        w.stats["op:replica"] += 1
        for name in names:
            mseed = r.randrange(1 << 30)
            random.seed(rec["uid"])
            np.random.seed(rec["uid"] % (1 << 32))
            try:
                ra = evaluate(xgi, name, act.sut, random.Random(mseed))
                ea = None
            except Exception as ex:  # noqa
                ra, ea = None, ex
            random.seed(rec["uid"])
            np.random.seed(rec["uid"] % (1 << 32))
            try:
                rb = evaluate(xgi, name, B, random.Random(mseed))
                eb = None
            except Exception as ex:  # noqa
                rb, eb = None, ex
            w.stats["measure:" + name] += 1
            fake = dict(rec, op="measure:" + name)
            if ea is not None or eb is not None:
                # one side returns and the other raises, or one side is rejected by the library
                # (a domain error) and the other fails otherwise.  Two *incidental* errors of
                # different types (non-numeric weights met in a different order) are no verdict.
                lib = [isinstance(x, Exception) and E.is_lib_exc(xgi, x) for x in (ea, eb)]
                if (ea is None) != (eb is None) or lib[0] != lib[1]:
                    w.find({"C09"}, "measure_raises_on_one_replica_only", fake, "H",
                           f"{name}: original -> {type(ea).__name__ if ea else 'ok'} {ea or ''}; relabelled/reordered "
                           f"replica ({nk}/{ek}) -> {type(eb).__name__ if eb else 'ok'} {eb or ''}")
                    break
                w.stats["measure_raised_on_both"] += 1
                continue
            err = agree(ra, rb, f, g)
            if err:
                w.find({"C09"}, "measure_not_invariant", fake, "H",
                       f"{name} differs between a network and its relabelled ({nk} nodes / {ek} edge IDs), "
                       f"re-ordered replica: {err}"[:700])
                break
    w.logev("replica", rec["uid"], rec["actor"], nk, ek, canon(names))
    return rec["actor"]


def exec_extra(sim, rec):
    return do_replica(sim, rec)
