"""C11 -- what is written to disk reads back as the same network (durable-store simulation).

write_F / read_F over a handful of paths (so files are overwritten: longer by shorter, one
format by another) on top of the SimFS raw-device seam.  Always on: short reads and short
writes with scheduler-chosen chunk sizes.  Faults: ENOSPC / EIO after k bytes of a write, EIO
after k bytes of a read, failing open, failing close.

Acknowledged-write rule: if write_F returned, a later fault-free read_F of that path returns a
network equal to pi_F(model at write time).  If write_F raised, the path is indeterminate until
the next acknowledged write.  A read whose device failed must raise; a write whose device
failed must not return normally.
"""
import json as _json
import math
import os
import random
import warnings
from copy import deepcopy

from .. import engine as E
from .. import models as M
from ..labels import canon, csort, dec, enc
from ..simfs import Plan, SimFS
from ..snap import integrity, snapshot
from . import common

EXTRA_OPS = {"write", "read", "write_coll", "read_coll", "twin", "big_roundtrip"}
COLL_FAMILIES = [["run:1", "run_1"], ["a|b", "a?b", "a_b"], ["x.y", "x*y", "x_y"], ["A", "a"], ["1", "01"], ["a b", "a_b"]]
COLL_NAMES = ["n0", "n1", "run:1", "run_1", "a|b", "a?b", "a b", "a_b", "x.y", "x*y", "A", "a", "é", "1", "01"]
EXPECTED_PROBES = ["write_overwrites_longer_file", "write_failed_in_last_flush", "read_fault_fired",
                   "short_reads_of_a_file_with_multibyte_characters",
                   "write_fault_fired", "overwrite_other_format", "single_row_or_column_matrix"]
FORMATS = ["hif", "json", "edgelist", "bipartite", "incidence"]
DELIMS = [" ", ",", "\t", ";", "|"]
PATHS = ["P0", "P1", "P2"]


def configure(cfg, r, tier):
    cfg["profile"] = r.choice(["ints", "ints", "strs", "ints", "strs", "mixed"])
    cfg["initial"] = [r.choice(["H", "H", "H", "DH", "SC"]) for _ in range(r.choice([1, 2]))]
    cfg["faults"] = False
    cfg["json_attrs"] = True
    cfg["steps"] = r.randint(10, 36) if tier == "quick" else r.randint(20, 90)
    cfg["p_io"] = r.choice([0.3, 0.45, 0.6])
    cfg["io_faults"] = r.random() < 0.6
    cfg["io_fault_rate"] = r.choice([0.1, 0.2, 0.3])
    cfg["chunks"] = r.choice([None, (1, 7), (1, 64), (3, 16)])
    for k in ("H", "DH", "SC"):
        t = cfg["ops"][k]
        t.pop("merge_duplicate_edges", None)  # union merge creates set-valued attributes (not JSON)
        t["set_net_attr"] = 2.0
        t["freeze"] = 0.1
        # explicit IDs of another type than the automatic (int) ones take a network out of the
        # stated domain of the text formats; keep them rare
    cfg["unicode_labels"] = r.random() < 0.5
    if cfg["profile"] == "strs":
        # explicit (string) edge IDs next to automatic (int) ones take a network out of the
        # stated domain of the string-casting formats: string-labelled nodes, automatic edge IDs
        cfg["explicit_idx_rate"] = 0.0
        cfg["bulk_fmts"] = [1, 3]
        cfg["p_existing_edge"] = 1.0
        for k in ("H", "DH"):
            cfg["ops"][k].pop("add_node_to_edge", None)
    else:
        cfg["explicit_idx_rate"] = r.choice([0.2, 0.45])
    from .c10 import cross_profile
    cross_profile(cfg, r, 0.12)


def init(sim):
    sim.fs = SimFS()
    sim.store = {}
    sim.coll = {}


def finish(sim):
    if getattr(sim, "fs", None) is not None:
        sim.fs.destroy()
        sim.fs = None


# ---------------------------------------------------------------------------
def json_safe(v):
    if v is None or isinstance(v, (bool, int, str)):
        return True
    if isinstance(v, float):
        return math.isfinite(v)
    if isinstance(v, list):
        return all(json_safe(x) for x in v)
    if isinstance(v, dict):
        return all(isinstance(k, str) and json_safe(x) for k, x in v.items())
    return False


def str_cast_faithful(labs):
    """does str() identify exactly the labels that are equal?  Every *spelling* counts: 4 and 4.0
    are one node but two strings; 1 and "1" are two nodes but one string."""
    sp = list({(type(x).__name__, repr(x)): x for x in labs}.values())
    for i, x in enumerate(sp):
        for y in sp[i + 1:]:
            try:
                same = bool(x == y)
            except Exception:
                same = False
            if same != (str(x) == str(y)):
                return False
    return True


def label_type(ids):
    ts = {type(i) for i in ids}
    if not ts:
        return "empty"
    if ts == {int}:
        return "int"
    if ts == {str}:
        return "str"
    return None


def admissible(fmt, m):
    """is the network inside the stated domain of format fmt?"""
    nodes, edges = list(m.nodes), list(m.edges)
    nt, et = label_type(nodes + [x for e in m.edges for x in m.all_members(e)]), label_type(edges)
    attrs_ok = all(json_safe(a) for a in m.nodes.values()) and all(json_safe(a) for a in m.eattr.values()) \
        and json_safe(m.net)
    if fmt == "hif":
        # HIF carries any JSON scalar as a label: ints, floats and strings may be mixed
        labels = nodes + edges + [x for e in m.edges for x in m.all_members(e)]
        if any(isinstance(x, bool) or not isinstance(x, (int, float, str)) for x in labels):
            return False
        if any(isinstance(x, float) and not math.isfinite(x) for x in labels):
            return False
        return attrs_ok
    if nt is None or et is None:
        return False
    if any(isinstance(x, bool) for x in nodes + edges):
        return False
    if fmt == "json":
        return m.kind in ("H", "SC") and attrs_ok
    if m.kind != "H":
        return False
    if not nodes or not edges:
        return False
    if any(len(m.edges[e]) == 0 for e in edges):
        return False
    if fmt == "incidence":
        return True
    import re
    if any(not re.fullmatch(r"-?[\w\ufeff]+", str(x)) for x in nodes + edges):
        return False  # a label containing a delimiter / comment / whitespace character
    return True


def caster(t):
    return int if t == "int" else None


def pi(fmt, m, params):
    """what a fault-free read of an acknowledged write must return: (model, exp)"""
    if fmt == "hif":
        nc = (lambda x: str(x)) if params.get("nodetype") == "str" else (lambda x: x)
        ec = (lambda x: str(x)) if params.get("edgetype") == "str" else (lambda x: x)
        out = type(m)()
        for n in m.nodes:
            out.nodes[nc(n)] = deepcopy(m.nodes[n])
        for e in m.edges:
            if m.kind == "DH":
                t, h = m.edges[e]
                out.edges[ec(e)] = ({nc(n) for n in t}, {nc(n) for n in h})
            else:
                out.edges[ec(e)] = out._copy_members({nc(n) for n in m.edges[e]})
            out.eattr[ec(e)] = deepcopy(m.eattr[e])
        out.net = deepcopy(m.net)
        return out, M.Exp(nodes_order_free=True, edges_order_free=True)
    nc = (lambda x: int(str(x))) if params.get("nodetype") == "int" else (lambda x: str(x))
    ec = (lambda x: int(str(x))) if params.get("edgetype") == "int" else (lambda x: str(x))
    out = M.HModel()
    if fmt == "json":
        for n in m.nodes:
            out.nodes[nc(n)] = deepcopy(m.nodes[n])
        for e in m.edges:
            out.edges[ec(e)] = {nc(n) for n in m.edges[e]}
            out.eattr[ec(e)] = deepcopy(m.eattr[e])
        out.net = deepcopy(m.net)
        return out, M.Exp(nodes_order_free=True, edges_order_free=True)
    if fmt == "edgelist":
        for i, e in enumerate(m.edges):
            mem = {nc(n) for n in m.edges[e]}
            for n in csort(mem):
                out.nodes.setdefault(n, {})
            out.edges[i] = mem
            out.eattr[i] = {}
        return out, M.Exp(nodes_order_free=True)
    if fmt == "bipartite":
        for e in m.edges:
            mem = {nc(n) for n in m.edges[e]}
            for n in csort(mem):
                out.nodes.setdefault(n, {})
            if params.get("dual"):
                pass
            out.edges[ec(e)] = mem
            out.eattr[ec(e)] = {}
        if params.get("dual"):
            d = M.HModel()
            for e in out.edges:
                d.nodes.setdefault(e, {})
            for n in out.nodes:
                d.edges[n] = {e for e in out.edges if n in out.edges[e]}
                d.eattr[n] = {}
            return d, M.Exp(nodes_order_free=True, edges_order_free=True)
        return out, M.Exp(nodes_order_free=True, edges_order_free=True)
    if fmt == "incidence":
        npos = {n: i for i, n in enumerate(m.nodes)}
        for j, e in enumerate(m.edges):
            mem = {npos[n] for n in m.edges[e]}
            if mem:
                for i in sorted(mem):
                    out.nodes.setdefault(i, {})
                out.edges[j] = mem
                out.eattr[j] = {}
        return out, M.Exp(nodes_order_free=True, edges_order_free=True)
    raise KeyError(fmt)


# ---------------------------------------------------------------------------
def gen_io(sim):
    g = sim.gen
    cfg = sim.cfg
    io = {}
    if cfg["chunks"]:
        lo, hi = cfg["chunks"]
        io["wchunk"] = g.r.randint(lo, hi)
        io["rchunk"] = g.r.randint(lo, hi)
    return io


def next_record(sim):
    g = sim.gen
    w = sim.world
    cfg = sim.cfg
    if not w.actors or g.r.random() > cfg["p_io"]:
        return None
    x = g.r.random()
    io = gen_io(sim)
    if g.r.random() < 0.0015:
        # a file with (just) more than 10**3 / 10**4 records: size thresholds of writers and readers
        return {"uid": g.next_uid(), "op": "big_roundtrip", "fmt": g.r.choice(["edgelist", "edgelist", "bipartite", "hif", "json"]),
                "n": g.r.choice([1001, 10001, 10007, 20011]), "delimiter": g.r.choice([" ", ",", "\t"]),
                "argseed": g.r.randrange(1 << 30), "io": {"wchunk": g.r.choice([None, 4096, 65536]), "rchunk": g.r.choice([None, 4096])}}
    if x < 0.5:
        name = g.r.choice(list(w.actors))
        m = w.actors[name].model
        fmts = [f for f in FORMATS if admissible(f, m)]
        if not fmts:
            return None
        fmt = g.r.choice(fmts)
        params = {}
        if fmt in ("edgelist", "bipartite", "incidence"):
            params["delimiter"] = g.r.choice(DELIMS)
        if cfg["io_faults"] and g.r.random() < cfg["io_fault_rate"]:
            kind = g.r.choice(["enospc", "eio_write", "eio_write", "open_fail", "close_fail"])
            io["fault"] = {"kind": kind, "at": g.r.choice([0, 1, 5, 17, 40, 90, 200, 400, 800])}
        return {"uid": g.next_uid(), "op": "write", "actor": name, "fmt": fmt, "path": g.r.choice(PATHS),
                "params": params, "io": io}
    if x < 0.9:
        free = [f"A{i}" for i in range(4) if f"A{i}" not in w.actors]
        if not free:
            return {"uid": g.next_uid(), "op": "drop", "actor": g.r.choice(list(w.actors))}
        written = [p for p in PATHS if p in sim.store]
        path = g.r.choice(written) if written and g.r.random() < 0.9 else g.r.choice(PATHS)
        st = sim.store.get(path)
        fmt = st["fmt"] if st and g.r.random() < 0.93 else g.r.choice(FORMATS)
        params = {}
        if st and st["fmt"] == fmt and st.get("ack"):
            params = dict(st["read_params"])
            if fmt == "hif" and g.r.random() < 0.4:
                # read back with string casts (only when the casts are injective)
                src = st.get("src_model")
                if src is not None:
                    labs = list(src.nodes) + [x for e in src.edges for x in src.all_members(e)]
                    if str_cast_faithful(labs) and g.r.random() < 0.8:
                        params["nodetype"] = "str"
                    if str_cast_faithful(list(src.edges)) and g.r.random() < 0.8:
                        params["edgetype"] = "str"
            if fmt == "bipartite" and g.r.random() < 0.25:
                # dual=True reads the first column as edges: the casts swap with the columns
                params["dual"] = True
                params["nodetype"], params["edgetype"] = params.get("edgetype"), params.get("nodetype")
        if cfg["io_faults"] and g.r.random() < cfg["io_fault_rate"]:
            kind = g.r.choice(["eio_read", "eio_read", "open_fail"])
            io["fault"] = {"kind": kind, "at": g.r.choice([0, 1, 5, 17, 40, 90, 200, 400])}
        return {"uid": g.next_uid(), "op": "read", "fmt": fmt, "path": path, "new": free[0], "params": params,
                "io": io}
    names = list(w.actors)
    if x < 0.95:
        fmt = g.r.choice(["hif", "json"])
        chosen = [n for n in names if g.r.random() < 0.7] or names[:1]
        rec = {"uid": g.next_uid(), "op": "write_coll", "actors": chosen, "fmt": fmt,
               "as": g.r.choice(["list", "dict"]), "io": io}
        if g.r.random() < 0.5:
            # dataset names: anything a file name may contain on this system, including names
            # that differ in one punctuation character only
            rec["names"] = g.r.sample(COLL_NAMES, len(chosen))
            if len(chosen) >= 2 and g.r.random() < 0.5:
                fam = g.r.choice(COLL_FAMILIES)
                rec["names"][:2] = g.r.sample(fam, 2)
                rec["names"] = rec["names"][:2] + [n for n in rec["names"][2:] if n not in rec["names"][:2]]
                rec["names"] += [f"n{i}" for i in range(len(chosen) - len(rec["names"]))]
        return rec
    free = [f"A{i}" for i in range(4) if f"A{i}" not in w.actors]
    if not free:
        return None
    return {"uid": g.next_uid(), "op": "read_coll", "fmt": g.r.choice(["hif", "json"]), "new": free[0], "io": io}


# ---------------------------------------------------------------------------
def run_io(sim, io, fn):
    fs = sim.fs
    fs.plan = Plan(io.get("wchunk"), io.get("rchunk"), io.get("fault"))
    with warnings.catch_warnings():
        warnings.simplefilter("ignore")
        with fs:
            try:
                return fn(), None, fs.plan
            except Exception as ex:  # noqa
                return None, ex, fs.plan


def do_write(sim, rec):
    w = sim.world
    xgi = sim.xgi
    act = w.actors.get(rec["actor"])
    if act is None:
        return None
    fmt, path = rec["fmt"], sim.fs.path(rec["path"])
    m = act.model
    if not admissible(fmt, m) or getattr(act, "sc_dirty", False):
        w.stats["write_skipped_outside_domain"] += 1
        return rec["actor"]
    def _spellings(sut):
        out = list(sut.nodes) + list(sut.edges)
        for e in sut.edges:
            mm = sut.edges.dimembers(e) if act.kind == "DH" else (sut.edges.members(e),)
            for part in mm:
                out += list(part)
        return out

    if fmt in ("hif", "json") and any(type(x).__module__ == "numpy" for x in _spellings(act.sut)):
        # numpy integer labels (equal to the model's ints; they come out of matrix / dataframe
        # conversions, or are one spelling of a node inside a member set) are not
        # JSON-representable: outside the domain of the JSON formats
        w.stats["write_skipped_outside_domain"] += 1
        return rec["actor"]
    params = rec["params"]
    read_params = {}
    nt, et = label_type(list(m.nodes)), label_type(list(m.edges))
    if fmt in ("json", "edgelist", "bipartite"):
        read_params["nodetype"] = "int" if nt == "int" else None
    if fmt in ("json", "bipartite"):
        read_params["edgetype"] = "int" if et == "int" else None
    if fmt == "json":
        # a string cast may be left out or passed explicitly (chosen from the step's uid)
        if nt == "str" and rec["uid"] % 2:
            read_params["nodetype"] = "str"
        if et == "str" and rec["uid"] % 3:
            read_params["edgetype"] = "str"
    if "delimiter" in params:
        read_params["delimiter"] = params["delimiter"]
    old_size = os.path.getsize(path) if os.path.exists(path) else None
    old = sim.store.get(rec["path"])
    sut = act.sut
    if fmt == "hif":
        fn = lambda: xgi.write_hif(sut, path)
    elif fmt == "json":
        fn = lambda: xgi.write_json(sut, path)
    elif fmt == "edgelist":
        fn = lambda: xgi.write_edgelist(sut, path, delimiter=params["delimiter"])
    elif fmt == "bipartite":
        fn = lambda: xgi.write_bipartite_edgelist(sut, path, delimiter=params["delimiter"])
    else:
        fn = lambda: xgi.write_incidence_matrix(sut, path, delimiter=params["delimiter"])
        if len(m.nodes) == 1 or len(m.edges) == 1:
            w.probes["single_row_or_column_matrix"] += 1
    _, exc, plan = run_io(sim, rec["io"], fn)
    new_size = os.path.getsize(path) if os.path.exists(path) else None
    w.stats["op:write." + fmt] += 1
    fk = (rec["io"].get("fault") or {}).get("kind")
    if fk:
        w.stats["fault_configured:" + fk] += 1
    for k, c in plan.fired.items():
        w.stats["fault_fired:" + k] += c
        w.probes["write_fault_fired"] += 1
    w.stats["short_writes"] += plan.short_writes
    w.logev("write", rec["uid"], rec["actor"], fmt, rec["path"], "ok" if exc is None else type(exc).__name__,
            sorted(plan.fired), plan.bytes_written)
    fake = dict(rec, op="write_" + fmt, fault={"kind": fk} if fk else None)
    if exc is None:
        if plan.fired:
            w.find({"C11"}, "write_error_swallowed", fake, act.kind,
                   f"the device failed ({sorted(plan.fired)}) after {plan.bytes_written} bytes but "
                   f"write_{fmt} returned normally")
            sim.store[rec["path"]] = {"fmt": fmt, "ack": False}
            return rec["actor"]
        expect, exp = pi(fmt, m, read_params)
        if fmt == "hif":
            expect.kind_name = act.kind
        try:
            with open(path, "rb") as fh:
                multibyte = any(b > 127 for b in fh.read())
        except OSError:
            multibyte = False
        sim.store[rec["path"]] = {"fmt": fmt, "ack": True, "expect": expect, "exp": exp,
                                  "read_params": read_params, "src_kind": act.kind, "multibyte": multibyte,
                                  "src_model": m.copy() if fmt == "hif" else None}
        if old_size is not None and new_size is not None and new_size < old_size:
            w.probes["write_overwrites_longer_file"] += 1
        if old and old.get("fmt") != fmt:
            w.probes["overwrite_other_format"] += 1
    else:
        if plan.fired:
            if (plan.fired.get("enospc") or plan.fired.get("eio_write")) and plan.bytes_written > 0 \
                    and plan.fault.get("at", 0) > 8:
                w.probes["write_failed_in_last_flush"] += 1
        elif fk is None:
            # no fault was injected: a write of an in-domain network must succeed
            w.find({"C11"}, "write_failed", fake, act.kind, f"write_{fmt}: {type(exc).__name__}: {exc}")
        sim.store[rec["path"]] = {"fmt": fmt, "ack": False}
    return rec["actor"]


def do_read(sim, rec):
    w = sim.world
    xgi = sim.xgi
    fmt, path = rec["fmt"], sim.fs.path(rec["path"])
    st = sim.store.get(rec["path"])
    p = rec["params"]
    nt = int if p.get("nodetype") == "int" else (str if p.get("nodetype") == "str" else None)
    et = int if p.get("edgetype") == "int" else (str if p.get("edgetype") == "str" else None)
    delim = p.get("delimiter")
    if fmt == "hif":
        hn = str if p.get("nodetype") == "str" else None
        he = str if p.get("edgetype") == "str" else None
        fn = lambda: xgi.read_hif(path, nodetype=hn, edgetype=he)
    elif fmt == "json":
        fn = lambda: xgi.read_json(path, nodetype=nt, edgetype=et)
    elif fmt == "edgelist":
        fn = lambda: xgi.read_edgelist(path, delimiter=delim, nodetype=nt)
    elif fmt == "bipartite":
        fn = lambda: xgi.read_bipartite_edgelist(path, delimiter=delim, nodetype=nt, edgetype=et,
                                                 dual=bool(p.get("dual")))
    else:
        fn = lambda: xgi.read_incidence_matrix(path, delimiter=delim)
    new, exc, plan = run_io(sim, rec["io"], fn)
    w.stats["op:read." + fmt] += 1
    fk = (rec["io"].get("fault") or {}).get("kind")
    if fk:
        w.stats["fault_configured:" + fk] += 1
    for k, c in plan.fired.items():
        w.stats["fault_fired:" + k] += c
        w.probes["read_fault_fired"] += 1
    w.stats["short_reads"] += plan.short_reads
    if plan.short_reads and st is not None and st.get("ack") and st.get("multibyte"):
        w.probes["short_reads_of_a_file_with_multibyte_characters"] += 1
    w.logev("read", rec["uid"], fmt, rec["path"], "ok" if exc is None else type(exc).__name__, sorted(plan.fired))
    fake = dict(rec, op="read_" + fmt, fault={"kind": fk} if fk else None)
    if plan.fired:
        if exc is None:
            w.find({"C11"}, "read_error_swallowed", fake, "?",
                   f"the device failed ({sorted(plan.fired)}) but read_{fmt} returned a network")
        return None
    pp = {k: v for k, v in p.items() if k != "dual"}
    if p.get("dual"):
        pp["nodetype"], pp["edgetype"] = pp.get("edgetype"), pp.get("nodetype")
    matches = st is not None and st.get("ack") and st["fmt"] == fmt and dict(st["read_params"]) == pp
    if st is not None and st.get("ack") and fmt == "hif" and st["fmt"] == "hif" and st.get("src_model") is not None:
        matches = True
    if not matches:
        # indeterminate path / other format / other parameters: no constraint on the outcome
        if exc is None and new is not None and not isinstance(new, dict):
            try:
                snap, anomalies = snapshot(new)
                if not anomalies and not integrity(snap):
                    common.add_actor(sim, rec["new"], new, M.model_from_snapshot(snap["kind"], snap), "file:" + fmt)
                    return rec["new"]
            except Exception:
                pass
        return None
    if exc is not None:
        w.find({"C11"}, "acknowledged_write_unreadable", fake, st["src_kind"],
               f"read_{fmt} of an acknowledged write raised {type(exc).__name__}: {exc}")
        return None
    expect, exp = st["expect"], st["exp"]
    if fmt == "hif" and (p.get("nodetype") or p.get("edgetype")):
        expect, exp = pi("hif", st["src_model"], p)
        w.probes["hif_read_with_string_casts"] += 1
    if p.get("dual"):
        expect, exp = dual_of(expect)
    want_kind = st["src_kind"] if fmt == "hif" else "H"
    try:
        got_kind = E.kind_of(new)
    except TypeError:
        w.find({"C11"}, "read_returned_non_network", fake, want_kind, repr(type(new)))
        return None
    if got_kind != want_kind:
        w.find({"C11"}, "class_not_preserved", fake, want_kind, f"wrote {want_kind}, read back {got_kind}")
        return None
    model = expect.copy()
    model.frozen = False
    act = common.add_actor(sim, rec["new"], new, model, "file:" + fmt)
    common.birth_check(sim, fake, act, {"C11"}, check_order=True, exp=exp)
    w.stats["acknowledged_reads_checked"] += 1
    return rec["new"]


def dual_of(h):
    d = M.HModel()
    for e in h.edges:
        d.nodes.setdefault(e, {})
    for n in h.nodes:
        d.edges[n] = {e for e in h.edges if n in h.edges[e]}
        d.eattr[n] = {}
    return d, M.Exp(nodes_order_free=True, edges_order_free=True)


def do_write_coll(sim, rec):
    w = sim.world
    xgi = sim.xgi
    acts = [w.actors[n] for n in rec["actors"] if n in w.actors]
    fmt = rec["fmt"]
    acts = [a for a in acts if admissible(fmt, a.model) and not getattr(a, "sc_dirty", False)]
    if not acts:
        return None
    root = sim.fs.path("coll_" + fmt)
    os.makedirs(root, exist_ok=True)
    if rec["as"] == "list":
        payload = [a.sut for a in acts]
        keys = [str(i) for i in range(len(acts))]
    else:
        nm = rec.get("names") or [f"n{i}" for i in range(len(rec["actors"]))]
        nm = [nm[i] for i, n in enumerate(rec["actors"]) if n in w.actors and
              admissible(fmt, w.actors[n].model) and not getattr(w.actors[n], "sc_dirty", False)]
        payload = {k: a.sut for k, a in zip(nm, acts)}
        keys = list(payload)
    if fmt == "hif":
        fn = lambda: xgi.write_hif_collection(payload, root, "c")
    else:
        fn = lambda: xgi.write_json(payload, root, "c")
    _, exc, plan = run_io(sim, rec["io"], fn)
    w.stats["op:write_coll." + fmt] += 1
    w.logev("write_coll", rec["uid"], fmt, rec["actors"], "ok" if exc is None else type(exc).__name__)
    fake = dict(rec, op="write_coll_" + fmt)
    if exc is not None:
        w.find({"C11"}, "write_failed", fake, "?", f"collection: {type(exc).__name__}: {exc}")
        sim.coll.pop(fmt, None)
        return None
    exps = {}
    for k, a in zip(keys, acts):
        m = a.model
        rp = {"nodetype": "int" if label_type(list(m.nodes)) == "int" else None,
              "edgetype": "int" if label_type(list(m.edges)) == "int" else None}
        exps[k] = (pi(fmt, m, rp), a.kind, rp)
    sim.coll[fmt] = exps
    return None


def do_read_coll(sim, rec):
    w = sim.world
    xgi = sim.xgi
    fmt = rec["fmt"]
    exps = sim.coll.get(fmt)
    if not exps:
        return None
    root = sim.fs.path("coll_" + fmt)
    info = os.path.join(root, "c_collection_information.json")
    # one set of casts for the whole collection: only checked when all members agree
    rps = {repr(sorted(v[2].items())) for v in exps.values()}
    if len(rps) != 1:
        return None
    rp = next(iter(exps.values()))[2]
    nt = int if rp["nodetype"] == "int" else None
    et = int if rp["edgetype"] == "int" else None
    if fmt == "hif":
        fn = lambda: xgi.read_hif_collection(info)
    else:
        fn = lambda: xgi.read_json(info, nodetype=nt, edgetype=et)
    got, exc, plan = run_io(sim, rec["io"], fn)
    w.stats["op:read_coll." + fmt] += 1
    w.logev("read_coll", rec["uid"], fmt, "ok" if exc is None else type(exc).__name__)
    fake = dict(rec, op="read_coll_" + fmt)
    if exc is not None:
        w.find({"C11"}, "acknowledged_write_unreadable", fake, "?", f"collection: {type(exc).__name__}: {exc}")
        return None
    if not isinstance(got, dict) or set(map(str, got)) != set(exps):
        w.find({"C11"}, "collection_members_differ", fake, "?", f"{sorted(map(str, got))!r} vs {sorted(exps)!r}")
        return None
    first = None
    for k, net in got.items():
        (expect, exp), kind, _ = exps[str(k)]
        want_kind = kind if fmt == "hif" else "H"
        if E.kind_of(net) != want_kind:
            w.find({"C11"}, "class_not_preserved", fake, want_kind, f"member {k}: {E.kind_of(net)}")
            return None
        snap, anomalies = snapshot(net)
        diffs = E.compare(snap, expect, exp, check_order=False)
        for clause, detail in diffs:
            w.find({"C11"}, "born_" + clause, fake, want_kind, f"collection member {k}: {detail}")
        if diffs:
            return None
        w.stats["acknowledged_reads_checked"] += 1
    return None


def do_big_roundtrip(sim, rec):
    """a self-contained write + read of a hypergraph with n edges (integer labels, two or three
    members each), outside the world of modelled actors: what is read back must list the same
    member sets in the same order (under the same IDs where the format carries IDs)"""
    w = sim.world
    xgi = sim.xgi
    fmt, n, delim = rec["fmt"], rec["n"], rec["delimiter"]
    r = random.Random(rec["argseed"])
    nn = max(5, n // 3)
    edges = []
    for i in range(n):
        a = r.randrange(nn)
        e = {a, (a + 1 + r.randrange(3)) % nn}
        if r.random() < 0.4:
            e.add(r.randrange(nn))
        edges.append(sorted(e))
    with warnings.catch_warnings():
        warnings.simplefilter("ignore")
        H = xgi.Hypergraph(edges)
    path = sim.fs.path("big_" + fmt)
    if fmt == "edgelist":
        wr = lambda: xgi.write_edgelist(H, path, delimiter=delim)
        rd = lambda: xgi.read_edgelist(path, delimiter=delim, nodetype=int)
    elif fmt == "bipartite":
        wr = lambda: xgi.write_bipartite_edgelist(H, path, delimiter=delim)
        rd = lambda: xgi.read_bipartite_edgelist(path, delimiter=delim, nodetype=int, edgetype=int)
    elif fmt == "hif":
        wr = lambda: xgi.write_hif(H, path)
        rd = lambda: xgi.read_hif(path)
    else:
        wr = lambda: xgi.write_json(H, path)
        rd = lambda: xgi.read_json(path, nodetype=int, edgetype=int)
    fake = dict(rec, op="big_roundtrip_" + fmt)
    w.stats["op:big_roundtrip." + fmt] += 1
    _, exc, _ = run_io(sim, rec["io"], wr)
    if exc is not None:
        w.find({"C11"}, "write_failed", fake, "H", f"{n} edges: {type(exc).__name__}: {exc}")
        return None
    got, exc, _ = run_io(sim, rec["io"], rd)
    if exc is not None:
        w.find({"C11"}, "acknowledged_write_unreadable", fake, "H", f"{n} edges: {type(exc).__name__}: {exc}")
        return None
    try:
        if fmt == "edgelist":
            back = [sorted(m) for m in got.edges.members()]
            want = edges
        else:
            back = {e: sorted(m) for e, m in got.edges.members(dtype=dict).items()}
            want = dict(enumerate(edges))
        if back != want:
            if isinstance(want, dict):
                bad = [k for k in want if back.get(k) != want[k]][:3] + [k for k in back if k not in want][:3]
                detail = f"{len(back)} edges read, {len(want)} written; first differences at IDs {bad!r}"
            else:
                k = next((i for i, (x, y) in enumerate(zip(back, want)) if x != y), min(len(back), len(want)))
                detail = f"{len(back)} edges read, {len(want)} written; first difference at position {k}: " \
                         f"{back[k] if k < len(back) else None!r} vs {want[k] if k < len(want) else None!r}"
            w.find({"C11"}, "large_file_round_trip_differs", fake, "H", f"{fmt}, {n} edges: {detail}")
    finally:
        try:
            os.unlink(path)
        except OSError:
            pass
    return None


def exec_extra(sim, rec):
    op = rec["op"]
    if op == "big_roundtrip":
        return do_big_roundtrip(sim, rec)
    if op == "twin":
        return common.do_twin(sim, rec)
    if op == "write":
        return do_write(sim, rec)
    if op == "read":
        return do_read(sim, rec)
    if op == "write_coll":
        return do_write_coll(sim, rec)
    return do_read_coll(sim, rec)
