"""C08 -- the read-only API never mutates the network it is given.

Two mechanisms (DESIGN C08):
1. direct: around every observe step a deep, ordered snapshot of the argument network (nodes and
   edges in iteration order, members, deep-copied attributes, network attributes, frozen flag,
   next automatic edge ID) must be identical before and after, whether the callable returned or
   raised;
2. differential schedule: at the end of the run the recorded op list is executed again with all
   observe steps elided; the final state of every actor (and hence every automatically assigned
   ID) must be identical.  Reads are required to be no-ops *in the schedule*.

The callables are enumerated by introspection: every public function of the xgi namespace whose
first parameter is a network (H, S, SC, net, data), plus the view and stat methods.  Arguments are
synthesised from parameter names; a callable for which none can be synthesised is reported in
the evidence as uncovered.  Exclusions are by documented in-place behaviour only.
"""
import inspect
import os
import random
import re
import shutil
import tempfile
import warnings
from copy import deepcopy

from .. import engine as E
from ..labels import canon, csort, fresh
from ..snap import snapshot
from . import common

EXTRA_OPS = {"observe", "twin"}
EXPECTED_PROBES = []
NET_PARAMS = {"H", "S", "SC", "net", "data"}
EXCLUDE = {
    "update_uid_counter": "documented as updating the counter of H in place",
    "download_xgi_data": "network download (requests.get is neutralised)",
    "load_xgi_data": "network download", "load_bigg_data": "network download",
}
SLOW = {"draw", "draw_bipartite", "draw_multilayer", "draw_hyperedges", "draw_simplices", "draw_nodes",
        "draw_node_labels", "draw_hyperedge_labels", "draw_undirected_dyads", "draw_directed_dyads",
        "barycenter_kamada_kawai_layout", "simulate_kuramoto", "simulate_simplicial_kuramoto",
        "spectral_clustering"}

VIEW_CALLS = [
    "nodes.degree.asdict", "nodes.degree.aslist", "nodes.degree.asnumpy", "nodes.degree.aspandas",
    "nodes.degree.max", "nodes.degree.argsort", "nodes.attrs.asdict", "nodes.memberships",
    "nodes.isolates", "nodes.duplicates", "edges.members", "edges.size.asdict", "edges.order.aslist",
    "edges.attrs.asdict", "edges.empty", "edges.duplicates", "edges.size.ashist",
    "H:nodes.average_neighbor_degree.asdict", "H:nodes.clustering_coefficient.asdict",
    "H:nodes.local_clustering_coefficient.asdict", "H:nodes.two_node_clustering_coefficient.asdict",
    "H:edges.maximal", "H:edges.singletons", "H:nodes.singletons?", "DH:edges.dimembers",
    "DH:nodes.dimemberships", "DH:edges.head", "DH:edges.tail", "DH:nodes.in_degree.asdict",
    "DH:nodes.out_degree.asdict", "DH:edges.head_size.asdict", "DH:edges.tail_order.asdict",
    "H:nodes.katz_centrality.asdict", "H:nodes.local_simplicial_fraction.asdict",
    "H:nodes.local_edit_simpliciality.asdict", "H:nodes.local_face_edit_simpliciality.asdict",
    "str", "repr", "len", "iter", "getattr_degree", "lshift", "dual", "multi",
    "deg_weight", "deg_order", "size_degree", "attrs_missing", "filterby", "filterby_attr", "neighbors",
    "lookup", "getitem", "copy", "copy",
]


def configure(cfg, r, tier):
    cfg["initial"] = [r.choice(["H", "H", "H", "DH", "SC"]) for _ in range(r.choice([1, 2]))]
    cfg["faults"] = False
    cfg["steps"] = r.randint(12, 36) if tier == "quick" else r.randint(20, 80)
    cfg["p_observe"] = r.choice([0.3, 0.45, 0.6])
    cfg["p_slow"] = r.choice([0.03, 0.06])
    cfg["p_twin"] = 0.03
    # frozen inputs are inputs too
    frozen_world = r.random() < 0.25  # a quarter of the runs observe (mostly) frozen networks
    for k in ("H", "DH", "SC"):
        cfg["ops"][k]["freeze"] = 25.0 if frozen_world else 0.2
    # set-valued attributes (union merge of duplicate edges) are inputs too
    cfg["ops"]["H"]["dup_edge"] = 4.0
    cfg["ops"]["H"]["merge_duplicate_edges"] = 3.0
    cfg["p_io_observer"] = r.choice([0.1, 0.25])
    if "SC" in cfg["initial"] and r.random() < 0.4:
        # the mutators a complex inherits from Hypergraph are part of its history too (they leave
        # mutable member sets behind); the closure clauses of C03 do not apply to such a complex
        cfg["sc_invariants"] = False
        cfg["sc_foreign_ops"] = True
        cfg["ops"]["SC"]["random_edge_shuffle"] = 4.0


_CACHE = {}


def observers(xgi):
    if "fns" in _CACHE:
        return _CACHE["fns"]
    fns = []
    for name in sorted(dir(xgi)):
        if name.startswith("_") or name in EXCLUDE:
            continue
        f = getattr(xgi, name)
        if not callable(f) or isinstance(f, type):
            continue
        try:
            sig = inspect.signature(f)
        except (TypeError, ValueError):
            continue
        ps = list(sig.parameters)
        if ps and ps[0] in NET_PARAMS:
            if ps[0] == "data" and not name.startswith("to_"):
                continue  # from_*_dict(data): the first parameter is a plain dict, not a network
            fns.append(name)
    _CACHE["fns"] = fns
    return fns


def init(sim):
    sim.c08_dir = None
    sim.c08_fs = None


def next_record(sim):
    g = sim.gen
    w = sim.world
    x = g.r.random()
    if not w.actors:
        return None
    if x < sim.cfg["p_twin"]:
        return common.gen_twin(sim, ["copy"])
    if x < sim.cfg["p_twin"] + sim.cfg["p_observe"]:
        name = g.r.choice(list(w.actors))
        fns = observers(sim.xgi)
        if g.r.random() < 0.25:
            fn = "view:" + g.r.choice(VIEW_CALLS)
        else:
            fn = g.r.choice(fns)
            if g.r.random() < sim.cfg.get("p_io_observer", 0.0):
                fn = g.r.choice([f for f in fns if f.startswith(("write_", "to_"))])
            if fn in SLOW and g.r.random() > sim.cfg["p_slow"] * 6:
                fn = g.r.choice([f for f in fns if f not in SLOW])
            fn = "xgi:" + fn
        return {"uid": g.next_uid(), "op": "observe", "actor": name, "fn": fn, "argseed": g.r.randrange(1 << 30)}
    return None


# ---------------------------------------------------------------------------
def next_auto_id(obj):
    """Peek at the next automatic edge ID without touching the counter."""
    m = re.match(r"count\((-?\d+)\)", repr(obj._edge_uid))
    if not m:
        return repr(obj._edge_uid)
    c = int(m.group(1))
    while c in obj._edge:
        c += 1
    return c


def deep_state(obj):
    snap, anomalies = snapshot(obj, deep=True)
    try:
        fz = bool(obj.is_frozen)
    except Exception as ex:  # noqa
        fz = repr(ex)
    return {
        "nodes": snap["nodes"], "edges": snap["edges"],
        "members": [canon(snap["members"][e]) for e in snap["edges"]],
        "memberships": [canon(snap["memberships"][n]) for n in snap["nodes"]],
        "nattr": [snap["nattr"][n] for n in snap["nodes"]],
        "eattr": [snap["eattr"][e] for e in snap["edges"]],
        "net": snap["net"], "frozen": fz, "next_auto_id": next_auto_id(obj),
        # the raw counter: if a read moves it past occupied IDs, removing the edge that holds the
        # old counter value and adding an edge gives a different automatic ID than without the read
        "edge_uid_counter": repr(obj._edge_uid),
        "anomalies": [repr(a) for a in anomalies],
    }


def diff_state(a, b):
    return [k for k in a if canon(a[k]) != canon(b[k]) or repr(a[k]) != repr(b[k])]


def synth(sim, r, fname, obj, kind):
    """(args, kwargs) for xgi.<fname>(obj, ...) or None"""
    xgi = sim.xgi
    f = getattr(xgi, fname)
    sig = inspect.signature(f)
    # (labels equal to the stored ones, never the same objects)
    nodes = [fresh(x) for x in obj.nodes]
    edges = [fresh(x) for x in obj.edges]
    kwargs = {}
    args = [obj]
    sizes = sorted({len(obj.edges.members(e)) for e in edges}) if edges else []
    for i, (pname, p) in enumerate(sig.parameters.items()):
        if i == 0 or p.kind in (p.VAR_KEYWORD, p.VAR_POSITIONAL):
            continue
        required = p.default is p.empty
        v = "__skip__"
        if pname == "in_place":
            v = False
        elif pname in ("order", "d") and (required or r.random() < 0.5):
            v = r.choice([s - 1 for s in sizes] + [1, 2]) if sizes else r.choice([1, 2])
            if fname in ("shuffle_hyperedges",) and sizes:
                v = r.choice([s - 1 for s in sizes])
        elif pname == "max_order" and r.random() < 0.4:
            v = r.choice([1, 2, 3])
        elif pname in ("n", "source", "nid1", "nid2") and required:
            if not nodes:
                return None
            v = r.choice(nodes)
        elif pname in ("pos", "node_pos") and (required or r.random() < 0.5):
            v = {n: (r.random(), r.random()) for n in nodes}
            if fname == "draw_hyperedge_labels":
                v.update({e: (r.random(), r.random()) for e in edges})
        elif pname == "path":
            if sim.c08_dir is None:
                sim.c08_dir = tempfile.mkdtemp(prefix="xgiverif-c08-", dir="/dev/shm")
                from ..simfs import _ROOTS
                _ROOTS.add(sim.c08_dir)  # removed at process exit if the run ends early
            v = os.path.join(sim.c08_dir, f"out{r.randrange(3)}")
            if fname == "write_hif_collection" or (fname == "write_json" and False):
                v = sim.c08_dir
        elif pname == "dag" and required:
            with warnings.catch_warnings():
                warnings.simplefilter("ignore")
                v = xgi.to_encapsulation_dag(obj)
        elif pname in ("k2", "k3") and required:
            v = r.choice([0.5, 1.0])
        elif pname in ("timesteps", "n_steps"):
            v = 4
        elif pname == "T":
            v = 1
        elif pname == "orders" and required:
            v = [1, 2]
        elif pname == "weights" and required:
            v = [1.0, 0.5]
        elif pname == "p" and required:
            v = r.choice([0.0, 0.5, 1.0])
        elif pname == "seed":
            v = r.randrange(1000)
        elif pname == "num_samples":
            v = 20
        elif pname == "cutoff":
            v = 10
        elif pname == "max_iter":
            v = 10
        elif pname == "kind" and r.random() < 0.6:
            v = r.choice(["uniform", "top-2", "top-bottom"] if "assort" in fname else ["union", "min", "max"])
        elif pname in ("sparse", "index", "weighted", "normalized", "rescale_per_node", "ignore_singletons",
                       "exact", "include_self", "exclude_min_size", "normalize", "keep_isolates",
                       "equidistant", "hull", "node_labels", "hyperedge_labels", "return_phantom_graph") \
                and r.random() < 0.5:
            v = r.random() < 0.5
        elif pname == "s" and r.random() < 0.5:
            v = r.choice([1, 2])
        elif pname == "min_size" and r.random() < 0.4:
            v = r.choice([1, 2, 3])
        elif pname == "subset_types" and r.random() < 0.5:
            v = r.choice(["all", "immediate", "empirical"])
        elif pname == "nodes" and r.random() < 0.5:
            v = [n for n in nodes if r.random() < 0.6]
        elif pname == "edges" and r.random() < 0.4:
            v = [e for e in edges if r.random() < 0.6]
        elif pname == "label_attribute" and r.random() < 0.3:
            v = "old"
        elif pname == "k" and fname == "spectral_clustering":
            v = 2
        elif pname == "collection_name":
            v = "c"
        elif required:
            return None
        if v == "__skip__" if isinstance(v, str) else False:
            continue
        if required and p.kind == p.POSITIONAL_OR_KEYWORD and len(args) == i:
            args.append(v)
        else:
            kwargs[pname] = v
    return args, kwargs


def view_call(sim, r, spec, obj, kind):
    """returns a thunk or None when the call does not apply to this class"""
    xgi = sim.xgi
    if ":" in spec:
        only, spec = spec.split(":", 1)
        if only == "H" and kind == "DH":
            return None
        if only == "DH" and kind != "DH":
            return None
    if spec.endswith("?"):
        return None
    if spec == "str":
        return lambda: str(obj)
    if spec == "repr":
        return lambda: (repr(obj.nodes), repr(obj.edges), repr(obj.nodes.degree))
    if spec == "len":
        return lambda: (len(obj), obj.num_nodes, obj.num_edges, len(obj.nodes), len(obj.edges))
    if spec == "iter":
        return lambda: (list(obj), [n in obj for n in list(obj)[:2]], 12345 in obj, [1] in obj)
    if spec == "getattr_degree":
        return lambda: obj.degree()
    if spec == "lshift":
        if kind != "H":
            return None
        return lambda: obj << obj
    if spec == "dual":
        if kind != "H":  # the dual of a complex with a high-degree node adds 2^degree faces
            return None
        return lambda: obj.dual()
    if spec == "multi":
        if kind == "DH":
            return lambda: (obj.nodes.multi(["degree", "in_degree"]).asdict(), obj.edges.multi(["size", "order"]).aspandas())
        return lambda: (obj.nodes.multi(["degree", "average_neighbor_degree"]).asdict(transpose=True),
                        obj.edges.multi(["size", "order"]).aspandas())
    if spec == "deg_weight":
        return lambda: (obj.nodes.degree(weight=r.choice(["w", "weight", "color"])).asdict(),
                        obj.nodes.degree(order=1, weight="w").aslist())
    if spec == "deg_order":
        return lambda: obj.nodes.degree(order=r.choice([0, 1, 2])).asdict()
    if spec == "size_degree":
        return lambda: (obj.edges.size(degree=r.choice([0, 1, 2])).asdict(), obj.edges.order(degree=1).aslist())
    if spec == "attrs_missing":
        return lambda: (obj.nodes.attrs("color", missing="none").asdict(), obj.edges.attrs("w").aslist())
    if spec == "filterby":
        return lambda: (list(obj.nodes.filterby("degree", 1, r.choice(["eq", "neq", "lt", "gt", "leq", "geq"]))),
                        list(obj.edges.filterby("size", (1, 3), "between")))
    if spec == "filterby_attr":
        return lambda: (list(obj.nodes.filterby_attr("color", "red")), list(obj.edges.filterby_attr("w", 1, "geq", missing=0)))
    if spec == "neighbors":
        return lambda: ([obj.nodes.neighbors(n) for n in list(obj.nodes)[:3]] if kind != "DH" else None,
                        [obj.edges.neighbors(e, s=r.choice([1, 2])) for e in list(obj.edges)[:3]] if kind != "DH" else None)
    if spec == "lookup":
        return lambda: (list(obj.edges.lookup(list(obj.nodes)[:2])) if kind != "DH" else None)
    if spec == "copy":
        return lambda: obj.copy()
    if spec == "getitem":
        return lambda: ([obj.nodes[n] for n in list(obj.nodes)[:2]], [obj.edges[e] for e in list(obj.edges)[:2]],
                        obj["name"] if "name" in obj._net_attr else None)
    parts = spec.split(".")

    def thunk():
        x = obj
        for p in parts:
            x = getattr(x, p)
        return x() if callable(x) else x

    return thunk


def too_big_for(name, obj, args, kwargs):
    import math
    n = len(obj.nodes)
    try:
        sizes = [len(m) for m in obj.edges.members()] if not hasattr(obj.edges, "dimembers") else [0]
    except Exception:
        sizes = [0]
    k = max(sizes + [0])
    if name == "adjacency_tensor":
        order = kwargs.get("order", args[1] if len(args) > 1 else k - 1)
        try:
            return n ** (int(order) + 1) > 2_000_000
        except Exception:
            return False
    if name == "complement":
        return sum(math.comb(n, j) for j in range(1, k + 1)) > 300_000
    return False


def do_observe(sim, rec):
    w = sim.world
    act = w.actors.get(rec["actor"])
    if act is None:
        return None
    xgi = sim.xgi
    obj = act.sut
    fn = rec["fn"]
    r = random.Random(rec["argseed"])
    cov = w.extra.setdefault("callable_coverage", {})
    key = fn
    if fn.startswith("xgi:"):
        name = fn[4:]
        if not hasattr(xgi, name):
            return rec["actor"]
        try:
            sa = synth(sim, r, name, obj, act.kind)
        except Exception:
            sa = None
        if sa is None:
            cov[key + "|no_args"] = cov.get(key + "|no_args", 0) + 1
            return rec["actor"]
        args, kwargs = sa
        if too_big_for(name, obj, args, kwargs):
            # dense n**(order+1) tensors and complements over millions of subsets: their cost is
            # in one C-level allocation that no step budget interrupts (63 GB were observed)
            cov[key + "|skipped_large_input"] = cov.get(key + "|skipped_large_input", 0) + 1
            return rec["actor"]
        thunk = lambda: getattr(xgi, name)(*args, **kwargs)
    else:
        thunk = view_call(sim, r, fn[5:], obj, act.kind)
        if thunk is None:
            return rec["actor"]
    before = deep_state(obj)
    # the global generators are set from the step's own uid (never from the history)
    import numpy as np
    random.seed(rec["uid"] * 7919 + 1)
    np.random.seed((rec["uid"] * 104729 + 7) % (1 << 32))
    exc = None
    out = None
    fs = None
    if fn.startswith("xgi:write_") and sim.c08_dir is not None:
        # writers run on the simulated raw device: short writes always, and in about a third of
        # the calls an injected ENOSPC / EIO / failing open / failing close -- the input must be
        # left alone whether the writer returns or raises
        from ..simfs import Plan, SimFS
        if sim.c08_fs is None:
            sim.c08_fs = SimFS()
            sim.c08_fs.destroy()
            sim.c08_fs.root = sim.c08_dir
        fs = sim.c08_fs
        fault = None
        if r.random() < 0.35:
            fault = {"kind": r.choice(["enospc", "eio_write", "open_fail", "close_fail"]),
                     "at": r.choice([0, 3, 20, 80, 300])}
        fs.plan = Plan(r.randint(1, 32), None, fault)
    with warnings.catch_warnings():
        warnings.simplefilter("ignore")
        try:
            if fs is not None:
                with fs:
                    out = thunk()
            else:
                out = thunk()
            if inspect.isgenerator(out):
                out = list(out)
        except Exception as ex:  # noqa
            exc = ex
    if fs is not None:
        for k, c in fs.plan.fired.items():
            w.stats["fault_fired:" + k] += c
        if fs.plan.fault:
            w.stats["fault_configured:" + fs.plan.fault["kind"]] += 1
    try:
        import matplotlib.pyplot as plt
        plt.close("all")
    except Exception:
        pass
    after = deep_state(obj)
    outcome = "ok" if exc is None else "raise"
    cov[key + "|" + outcome] = cov.get(key + "|" + outcome, 0) + 1
    w.stats["op:observe"] += 1
    w.logev("observe", rec["uid"], rec["actor"], fn, outcome, type(exc).__name__ if exc else "")
    changed = diff_state(before, after)
    if changed:
        fake = dict(rec, op="observe:" + fn.split(":", 1)[1])
        w.find({"C08"}, "input_mutated_" + "+".join(changed), fake, act.kind,
               f"{fn} ({'returned' if exc is None else 'raised ' + type(exc).__name__}) changed {changed}: "
               + "; ".join(f"{k}: {before[k]!r} -> {after[k]!r}" for k in changed)[:600])
        return rec["actor"]
    if exc is None and out is not None and out is not obj:
        # what the function returned is the caller's: change it (top-level structure only, as for
        # caller-supplied arguments) -- the input must not change with it
        # (nothing *inside* a returned attribute dict is touched: xgi hands those out live)
        attrish = "attr" in fn or fn.endswith("getitem") or fn.endswith(("to_hypergraph_dict", "to_hif_dict"))
        n = 0 if attrish and not hasattr(out, "_net_attr") else poison_result(out, obj)
        if n:
            w.stats["result_objects_modified_after_call"] += n
            after2 = deep_state(obj)
            changed = diff_state(before, after2)
            if changed:
                fake = dict(rec, op="observe:" + fn.split(":", 1)[1])
                w.find({"C08"}, "result_shares_state_with_input_" + "+".join(changed), fake, act.kind,
                       f"{fn} returned an object that shares state with its input: modifying the result changed "
                       f"{changed} of the input: " + "; ".join(f"{k}: {before[k]!r} -> {after2[k]!r}" for k in changed)[:600])
    return rec["actor"]


def _try(f, *a):
    try:
        f(*a)
    except Exception:
        pass


def _drop_member(net, e):
    mm = list(net.edges.members(e)) if not hasattr(net.edges, "dimembers") else list(net.edges.tail(e))
    if len(mm) >= 2:
        if hasattr(net.edges, "dimembers"):
            net.remove_node_from_edge(e, mm[0], "out", remove_empty=False)
        else:
            net.remove_node_from_edge(e, mm[0], remove_empty=False)


def poison_result(out, obj, depth=0):
    """modify a returned value in place where that is possible; returns the number of objects
    touched.  Networks: a network attribute, a node, an edge and a membership; containers:
    one more element (recursively, three levels)."""
    n = 0
    P = "__poison__"
    with warnings.catch_warnings():
        warnings.simplefilter("ignore")
        try:
            if hasattr(out, "_net_attr") and hasattr(out, "add_node"):
                for f in (lambda: out.__setitem__(P, 1), lambda: out._net_attr.clear(), lambda: out.add_node(P),
                          lambda: [_try(out.add_node_to_edge, e, P) for e in list(out.edges)[:60]],
                          lambda: [_try(out.add_node_to_edge, e, P, "in") for e in list(out.edges)[:60]],
                          lambda: [_try(_drop_member, out, e) for e in list(out.edges)[:60]],
                          lambda: out.set_node_attributes({x: {P: 1} for x in out.nodes}),
                          lambda: out.set_edge_attributes({x: {P: 1} for x in out.edges}),
                          lambda: out.remove_node(next(iter(out.nodes))),
                          lambda: out.remove_edge(next(iter(out.edges))) if not hasattr(out, "add_simplex")
                          else out.remove_simplex_id(next(iter(out.edges)))):
                    try:
                        f()
                        n += 1
                    except Exception:
                        pass
            elif isinstance(out, dict):
                # (no key is added to a returned dict: xgi hands out its attribute dicts live, as
                # networkx does -- H.nodes[n], attrs.asdict(), the "node-data" of the dict formats --
                # and C08 speaks of the call, not of what the caller does with such a dict)
                if depth < 3:
                    for v in list(out.values())[:50]:
                        if not isinstance(v, dict) or depth < 1:
                            n += poison_result(v, obj, depth + 1)
            elif isinstance(out, (list, tuple)):
                if depth < 3:
                    for v in list(out)[:50]:
                        n += poison_result(v, obj, depth + 1)
                if isinstance(out, list):
                    out.append(P)
                    n += 1
            elif isinstance(out, set):
                out.add(P)
                n += 1
        except Exception:
            pass
    return n


def exec_extra(sim, rec):
    if rec["op"] == "twin":
        return common.do_twin(sim, rec)
    return do_observe(sim, rec)


def finish(sim):
    """Differential schedule: same ops with the observers elided -> same final world."""
    if sim.c08_dir:
        shutil.rmtree(sim.c08_dir, ignore_errors=True)
        sim.c08_dir = None
    if sim.verdict is not None or getattr(sim, "is_shadow", False):
        return
    from ..sim import Sim
    ops = [deepcopy(o) for o in sim.ops if o.get("op") != "observe"]
    n_obs = len(sim.ops) - len(ops)
    if n_obs == 0:
        return
    shadow = Sim(sim.prop, sim.cfg, None, sim.xgi)
    shadow.hooks = sim.hooks
    shadow.is_shadow = True
    for rec in ops:
        shadow.exec_step(rec)
        if shadow.verdict is not None:
            return  # the shadow run has its own problem; the main run already judged the same steps
    w = sim.world
    w.stats["differential_runs"] += 1
    w.stats["observers_elided"] += n_obs
    for name, act in w.actors.items():
        other = shadow.world.actors.get(name)
        if other is None:
            continue
        a, b = deep_state(act.sut), deep_state(other.sut)
        changed = diff_state(a, b)
        if changed:
            rec = {"op": "differential", "uid": -1}
            w.find({"C08"}, "schedule_with_reads_differs_" + "+".join(changed), rec, act.kind,
                   f"actor {name}: final state differs between the run with {n_obs} interleaved reads and the "
                   f"same run without them in {changed}: " +
                   "; ".join(f"{k}: {a[k]!r} vs {b[k]!r}" for k in changed)[:500])
            sim.judge(len(w.findings) - 1)
            return
