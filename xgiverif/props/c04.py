"""C04 -- automatic edge IDs are always fresh; adding never overwrites.

The provenance x history property: the world of C04 obtains networks by every route -- empty,
copy / pickle / constructor twins, every converter round trip and class-to-class construction
(c10), file round trips through the simulated store (c11), relabelled / cleaned-up / largest-
component derivations (c19), seeded generators -- and then mixes explicit and automatic
additions on them.  Verdict-bearing: the add-type clauses of the engine (existing edges
untouched, new automatic IDs fresh, taken explicit IDs refused with a warning).
"""
import random
import warnings

from .. import engine as E
from .. import models as M
from ..labels import dec, enc
from ..snap import integrity, snapshot
from . import c10, c11, c16, c19, common

EXTRA_OPS = {"twin", "convert", "derive", "write", "read", "spawn_gen", "write_coll", "read_coll", "subhypergraph",
             "taken_run"}
EXPECTED_PROBES = ["auto_add_on_actor_from:copy", "auto_add_on_actor_from:pickle", "auto_add_on_actor_from:ctor",
                   "auto_add_on_actor_from:conv", "auto_add_on_actor_from:file", "auto_add_on_actor_from:generator",
                   "auto_add_on_actor_from:relabel_np", "explicit_idx_0", "explicit_idx_int_like_float",
                   "non_increasing_explicit_ids_in_one_bulk_call", "auto_add_after_add_node_to_edge_created_edge"]


def configure(cfg, r, tier):
    cfg["initial"] = [r.choice(["H", "H", "DH", "SC"]) for _ in range(r.choice([1, 2]))]
    for k in ("H", "DH", "SC"):
        t = cfg["ops"][k]
        for op in list(t):
            if op.startswith(("add_", "alias_add", "dup_edge", "update")):
                t[op] *= 2.5
    cfg["faults"] = r.random() < 0.35
    if cfg["faults"]:
        cfg["fault_rate"] = r.choice([0.15, 0.25])
        # calls that raise half-way leave the ID bookkeeping where the exception found it: the next
        # automatic IDs must still be fresh
        cfg["fault_kinds"] = ["oneshot", "none_member", "dying", "attr_junk", "attr_junk", "exotic_id"]
    cfg["p_prov"] = r.choice([0.1, 0.18, 0.25])
    cfg["json_attrs"] = True
    cfg["chunks"] = r.choice([None, (1, 16)])
    cfg["io_faults"] = False
    cfg["io_fault_rate"] = 0.0
    cfg["p_io"] = 1.0


def init(sim):
    c11.init(sim)


def finish(sim):
    c11.finish(sim)


def next_record(sim):
    g = sim.gen
    w = sim.world
    if g.r.random() < 0.002:
        # a long run of occupied IDs ahead of the automatic counter (size thresholds of the probing)
        return {"uid": g.next_uid(), "op": "taken_run", "kind": g.r.choice(["H", "DH", "H"]),
                "n": g.r.choice([40, 300, 1001, 1500, 4100]), "how": g.r.choice(["add_node_to_edge", "descending_bulk", "idx0_then_more"])}
    if not w.actors or g.r.random() > sim.cfg["p_prov"]:
        return None
    free = [f"A{i}" for i in range(4) if f"A{i}" not in w.actors]
    if not free:
        return {"uid": g.next_uid(), "op": "drop", "actor": g.r.choice(list(w.actors))}
    x = g.r.random()
    src = g.r.choice(list(w.actors))
    kind = w.actors[src].kind
    if x < 0.25:
        return {"uid": g.next_uid(), "op": "twin", "src": src, "new": free[0],
                "how": g.r.choice(["copy", "pickle", "ctor"])}
    if x < 0.55:
        return {"uid": g.next_uid(), "op": "convert", "src": src, "new": free[0], "rep": g.r.choice(c10.REPS[kind]),
                "argseed": g.r.randrange(1 << 30)}
    if x < 0.7:
        how = g.r.choice(["relabel_np", "cleanup_np"] + (["lcc_np"] if kind != "DH" else []))
        rec = {"uid": g.next_uid(), "op": "derive", "src": src, "new": free[0], "how": how}
        if how == "cleanup_np":
            keys = {"H": ("isolates", "singletons", "multiedges", "connected", "relabel"),
                    "SC": ("isolates", "connected", "relabel"), "DH": ("isolates", "relabel")}[kind]
            rec["flags"] = {k: g.r.random() < 0.5 for k in keys}
        elif how == "relabel_np":
            rec["label_attribute"] = "label"
        return rec
    if x < 0.85:
        fn = g.r.choice([f for f in c16.GENS if f not in ("trivial_hypergraph",)])
        return {"uid": g.next_uid(), "op": "spawn_gen", "new": free[0], "fn": fn,
                "params": enc(c16.gen_params(g.r, fn)), "seed": g.r.randrange(1 << 16)}
    # file round trip: write now, read at the next provenance step
    written = [p for p in c11.PATHS if p in sim.store and sim.store[p].get("ack")]
    if written and g.r.random() < 0.6:
        path = g.r.choice(written)
        st = sim.store[path]
        return {"uid": g.next_uid(), "op": "read", "fmt": st["fmt"], "path": path, "new": free[0],
                "params": dict(st["read_params"]), "io": c11.gen_io(sim)}
    m = w.actors[src].model
    fmts = [f for f in c11.FORMATS if c11.admissible(f, m)]
    if not fmts:
        return None
    fmt = g.r.choice(fmts)
    params = {"delimiter": g.r.choice(c11.DELIMS)} if fmt in ("edgelist", "bipartite", "incidence") else {}
    return {"uid": g.next_uid(), "op": "write", "actor": src, "fmt": fmt, "path": g.r.choice(c11.PATHS),
            "params": params, "io": c11.gen_io(sim)}


def do_spawn_gen(sim, rec):
    w = sim.world
    xgi = sim.xgi
    fn = rec["fn"]
    if not hasattr(xgi, fn):
        return None
    with warnings.catch_warnings():
        warnings.simplefilter("ignore")
        try:
            out, _ = c16.call_generator(xgi, fn, dec(rec["params"]), {"seed": rec["seed"]})
        except Exception:
            return None
    snap, anomalies = snapshot(out)
    if anomalies or integrity(snap):
        return None
    w.stats["op:spawn_gen." + fn] += 1
    w.logev("spawn_gen", rec["uid"], fn, rec["new"])
    common.add_actor(sim, rec["new"], out, M.model_from_snapshot(snap["kind"], snap), "generator")
    return rec["new"]


def do_taken_run(sim, rec):
    """self-contained: n consecutive integer IDs are occupied by routes that do not advance the
    counter; the next automatic additions must get fresh IDs and leave every existing edge alone"""
    import warnings
    w = sim.world
    xgi = sim.xgi
    kind, n, how = rec["kind"], rec["n"], rec["how"]
    with warnings.catch_warnings():
        warnings.simplefilter("ignore")
        N = xgi.DiHypergraph() if kind == "DH" else xgi.Hypergraph()
        mem = (lambda e: ([("t", e)], [("h", e)])) if kind == "DH" else (lambda e: [("a", e), ("b", e)])
        if how == "add_node_to_edge":
            for e in range(n):
                if kind == "DH":
                    N.add_node_to_edge(e, ("t", e), "in")
                    N.add_node_to_edge(e, ("h", e), "out")
                else:
                    N.add_node_to_edge(e, ("a", e))
                    N.add_node_to_edge(e, ("b", e))
        elif how == "descending_bulk":
            N.add_edges_from([(mem(e), e) for e in range(n - 1, -1, -1)])
        else:
            N.add_edge(mem(0), idx=0)
            N.add_edges_from([(mem(e), e) for e in range(n - 1, 0, -1)])
        before = {e: (N.edges.dimembers(e) if kind == "DH" else N.edges.members(e)) for e in N.edges}
        fake = dict(rec, op="taken_run:" + how)
        w.stats["op:taken_run." + kind] += 1
        try:
            N.add_edge(([("x", 1)], [("y", 1)]) if kind == "DH" else [("x", 1), ("y", 1)])
            N.add_edges_from([([("x", 2)], [("y", 2)])] if kind == "DH" else [[("x", 2), ("y", 2)]])
        except Exception as ex:  # noqa
            w.find({"C04"}, "automatic_add_failed_after_run_of_taken_ids", fake, kind, f"n={n}: {type(ex).__name__}: {ex}")
            return None
        after = {e: (N.edges.dimembers(e) if kind == "DH" else N.edges.members(e)) for e in N.edges}
        changed = [e for e in before if after.get(e) != before[e]]
        if changed:
            # (an overwritten edge leaves the memberships of its old members behind: the incidence
            # is no longer two-way either)
            w.find({"C04", "C02" if kind == "DH" else "C01"}, "existing_edge_altered_by_add", fake, kind,
                   f"{n} occupied IDs ahead of the counter ({how}): automatic additions changed edge(s) {changed[:3]!r}")
        elif len(after) != len(before) + 2:
            w.find({"C04"}, "missing_new_edge", fake, kind,
                   f"{n} occupied IDs ahead of the counter ({how}): {len(after) - len(before)} new edges after two automatic additions")
    return None


def exec_extra(sim, rec):
    op = rec["op"]
    if op == "taken_run":
        return do_taken_run(sim, rec)
    if op == "twin":
        return common.do_twin(sim, rec)
    if op == "convert":
        return c10.do_convert(sim, rec)
    if op == "derive":
        return c19.do_derive(sim, rec)
    if op == "subhypergraph":
        return common.do_subhypergraph(sim, rec, {"C19"})
    if op == "spawn_gen":
        return do_spawn_gen(sim, rec)
    return c11.exec_extra(sim, rec)


def before_step(sim, rec):
    """rare-condition probes for the shapes the property names"""
    w = sim.world
    act = w.actors.get(rec.get("actor"))
    if act is None or "args" not in rec:
        return
    op = rec["op"]
    a = rec["args"]
    if op in ("add_edge", "add_simplex"):
        idx = dec(a.get("idx"))
        if idx == 0 and idx is not None and not isinstance(idx, bool):
            w.probes["explicit_idx_0"] += 1
        if isinstance(idx, float) and idx.is_integer():
            w.probes["explicit_idx_int_like_float"] += 1
    if op in ("add_edges_from", "add_simplices_from") and dec(a.get("fmt")) in (2, 4):
        ids = [it[1] for it in dec(a["items"]) if isinstance(it[1], (int, float)) and not isinstance(it[1], bool)]
        if any(y <= x for x, y in zip(ids, ids[1:])):
            w.probes["non_increasing_explicit_ids_in_one_bulk_call"] += 1
    if op in E.ADD_OPS and op != "add_node_to_edge":
        auto = dec(a.get("idx")) is None if "idx" in a else True
        if auto:
            lin = act.lineage.split(":")[0]
            w.probes["auto_add_on_actor_from:" + lin] += 1
            if getattr(act, "last_op", None) == "add_node_to_edge_created":
                w.probes["auto_add_after_add_node_to_edge_created_edge"] += 1
    if op == "add_node_to_edge":
        e = dec(a.get("edge"))
        try:
            act.last_op = "add_node_to_edge_created" if e not in act.model.edges else "add_node_to_edge"
        except TypeError:
            act.last_op = None
    else:
        act.last_op = op
