"""C16 -- generators deliver the structure their parameters promise.

Randomness is the nondeterminism here and it sits behind the RNG seam: (a) real MT19937 with
scheduler seeds, via seed= and via a pre-set global state with seed=None; (b) adversarial:
scripted random.random / numpy.random.random streams that make skip sampling land exactly on
the first index, on the last index and one past it, or make a Bernoulli draw equal p exactly.
The oracle is the promise table of DESIGN appendix D.  The index decoders that the adversarial
stream steers are checked exhaustively (plain enumeration, n <= 9, m <= 4) as bijections.
"""
import itertools
import math
import random
import warnings
from itertools import combinations

import numpy as np

from .. import engine as E
from ..labels import canon, csort, dec, enc
from ..rngseam import Scripted, r_for_geometric, set_global_state
from ..snap import integrity, snapshot
from . import common

EXTRA_OPS = {"generate", "decoders", "coverage", "decoders_large"}
EXPECTED_PROBES = ["skip_sampling_landed_on_last_index", "skip_sampling_landed_on_index_0",
                   "skip_sampling_one_past_last_index", "probability_one", "probability_zero"]
PROBS = [0.0, 1e-9, 0.3, 0.3, 0.7, 1.0 - 1e-9, 1.0]
GENS = ["fast_random_hypergraph", "random_hypergraph", "uniform_erdos_renyi_hypergraph", "uniform_HSBM",
        "uniform_HPPM", "uniform_hypergraph_configuration_model", "chung_lu_hypergraph", "dcsbm_hypergraph",
        "watts_strogatz_hypergraph", "complete_hypergraph", "random_simplicial_complex", "flag_complex",
        "flag_complex_d2", "random_flag_complex", "random_flag_complex_d2", "ring_lattice", "sunflower",
        "star_clique", "trivial_hypergraph"]


def configure(cfg, r, tier):
    cfg["initial"] = []
    cfg["epilogue"] = False
    cfg["faults"] = False
    cfg["steps"] = r.randint(4, 10) if tier == "quick" else r.randint(8, 30)
    cfg["p_adversarial"] = r.choice([0.2, 0.4, 0.6])
    cfg["gens"] = [g for g in GENS if r.random() < 0.75] or GENS


def next_record(sim):
    g = sim.gen
    r = g.r
    if r.random() < 0.05:
        return {"uid": g.next_uid(), "op": "decoders", "n": r.randint(1, 9), "m": r.randint(1, 4)}
    if r.random() < 0.04:
        n = r.randint(10, 60)
        return {"uid": g.next_uid(), "op": "decoders_large", "n": n, "m": r.randint(2, min(n - 1, 20))}
    if r.random() < 0.04:
        m = r.choice([2, 3])
        return {"uid": g.next_uid(), "op": "coverage", "which": r.choice(COVER_FNS), "n": r.randint(m, 6), "m": m,
                "p": r.choice([0.5, 0.7]), "seed": r.randrange(1 << 20)}
    fn = r.choice(sim.cfg["gens"])
    params = gen_params(r, fn)
    mode = "adversarial" if r.random() < sim.cfg["p_adversarial"] else r.choice(["seed", "seed", "global"])
    rec = {"uid": g.next_uid(), "op": "generate", "fn": fn, "params": enc(params), "mode": mode,
           "seed": r.randrange(1 << 20)}
    if mode == "adversarial":
        rec["script"] = gen_script(r, fn, params)
    elif r.random() < 0.2:
        rec["again"] = True
    return rec


def rand_graph(r, n):
    p = r.choice([0.0, 0.3, 0.6, 1.0])
    return [[i, j] for i in range(n) for j in range(i + 1, n) if r.random() < p]


def sparse_large_params(r, fn):
    """large n, tiny probability (expected number of edges about 1-3): skip sampling makes this as
    cheap as a small case, and it is the regime where p is far below 1e-8"""
    import math
    n = r.choice([200, 500, 1000, 3000])
    m = r.choice([3, 4])
    lam = r.choice([1.0, 2.0, 3.0])
    p = lam / math.comb(n, m)
    if fn == "fast_random_hypergraph":
        return {"n": n, "ps": [p], "order": [m - 1]}
    if fn == "uniform_erdos_renyi_hypergraph":
        return {"n": n, "m": m, "p": p, "p_type": "prob", "multiedges": False}
    if fn == "uniform_HPPM":
        return {"n": n, "m": 3, "k": r.choice([0.01, 0.05]), "epsilon": 0.5, "rho": 0.5}
    return None


def huge_params(r, fn):
    """the generators that enumerate *every* candidate: parameters whose candidate count at some
    order lies on either side of 10**5 / 10**6 / 10**7 (size thresholds at which an implementation
    may switch strategy; 10**4 too), with probabilities so small that only a handful of edges result.  The
    largest cost about 1.5 s of CPU per call on the pinned tree."""
    import math
    k = r.choice([2, 3, 4])  # members of the largest candidates
    target = r.choice([1.2e4, 1.2e5, 1.2e6, 1.05e7])
    n = k
    while math.comb(n, k) <= target:
        n += 1
    ps = [r.choice([0.0, 1.0, 2.0]) / math.comb(n, j) for j in range(2, k + 1)]
    if fn == "random_simplicial_complex":
        return {"N": n, "ps": ps}
    if fn == "random_hypergraph":
        if r.random() < 0.5:
            return {"n": n, "ps": [ps[-1]], "order": [k - 1]}
        return {"n": n, "ps": ps}
    return None


def gen_params(r, fn, huge_rate=0.02):
    if fn in ("random_simplicial_complex", "random_hypergraph") and r.random() < huge_rate:
        return huge_params(r, fn)
    if fn in ("fast_random_hypergraph", "uniform_erdos_renyi_hypergraph", "uniform_HPPM") and r.random() < 0.12:
        return sparse_large_params(r, fn)
    n = r.randint(1, 9)
    if fn in ("fast_random_hypergraph", "random_hypergraph"):
        k = r.randint(1, 3)
        if r.random() < 0.5:
            return {"n": n, "ps": [r.choice(PROBS) for _ in range(k)]}
        orders = r.sample([0, 1, 2, 3], k)
        return {"n": n, "ps": [r.choice(PROBS) for _ in range(k)], "order": orders}
    if fn == "uniform_erdos_renyi_hypergraph":
        return {"n": n, "m": r.randint(1, 4), "p": r.choice(PROBS), "p_type": "prob",
                "multiedges": r.random() < 0.4}
    if fn == "uniform_HSBM":
        m = r.choice([2, 2, 3])
        nb = r.randint(1, 3)
        cuts = sorted(r.randint(0, n) for _ in range(nb - 1))
        sizes = [b - a for a, b in zip([0] + cuts, cuts + [n])]
        shape = [nb] * m
        p = np.zeros(shape)
        for idx in itertools.product(range(nb), repeat=m):
            p[idx] = r.choice([0.0, 0.3, 0.3, 1.0, 0.7])
        return {"n": n, "m": m, "p": p.tolist(), "sizes": sizes}
    if fn == "uniform_HPPM":
        return {"n": max(n, 2), "m": r.choice([2, 3]), "k": r.choice([0, 1, 2]), "epsilon": r.choice([0.0, 0.5, 1.0]),
                "rho": r.choice([0.0, 0.3, 0.5, 1.0])}
    if fn == "uniform_hypergraph_configuration_model":
        # (an edge size above the number of nodes admits no edge at all: not an admissible value)
        return {"k": {i: r.randint(0, 3) for i in range(n)}, "m": r.randint(1, min(4, n))}
    if fn == "chung_lu_hypergraph":
        k1 = {i: r.randint(1, 3) for i in range(n)}
        m = r.randint(1, 5)
        k2 = {f"e{j}": r.randint(1, 3) for j in range(m)}
        return {"k1": k1, "k2": k2}
    if fn == "dcsbm_hypergraph":
        k1 = {i: r.randint(1, 3) for i in range(n)}
        m = r.randint(1, 5)
        k2 = {j: r.randint(1, 3) for j in range(m)}
        g1 = {i: r.randrange(2) for i in k1}
        g2 = {j: r.randrange(2) for j in k2}
        omega = [[r.choice([0, 1, 3]) for _ in range(2)] for _ in range(2)]
        return {"k1": k1, "k2": k2, "g1": g1, "g2": g2, "omega": omega}
    if fn == "watts_strogatz_hypergraph":
        n = max(n, 3)
        return {"n": n, "d": r.randint(2, 3), "k": r.choice([2, 4]), "l": r.choice([1, 2]), "p": r.choice(PROBS)}
    if fn == "complete_hypergraph":
        if r.random() < 0.5:
            return {"N": n, "order": r.randint(0, 3)}
        return {"N": n, "max_order": r.randint(1, 3), "include_singletons": r.random() < 0.5}
    if fn == "random_simplicial_complex":
        return {"N": n, "ps": [r.choice(PROBS) for _ in range(r.randint(1, 3))]}
    if fn in ("flag_complex", "flag_complex_d2"):
        d = {"G": {"nodes": list(range(n)), "edges": rand_graph(r, n)}}
        if fn == "flag_complex":
            d["max_order"] = r.randint(1, 4)
            if r.random() < 0.4:
                d["ps"] = [r.choice(PROBS) for _ in range(r.randint(1, 3))]
        elif r.random() < 0.4:
            d["p2"] = r.choice(PROBS)
        return d
    if fn == "random_flag_complex":
        return {"N": n, "p": r.choice(PROBS), "max_order": r.randint(1, 4)}
    if fn == "random_flag_complex_d2":
        return {"N": n, "p": r.choice(PROBS)}
    if fn == "ring_lattice":
        n = max(n, 3)
        return {"n": n, "d": r.randint(2, 3), "k": r.choice([0, 2, 4]), "l": r.choice([0, 1, 2])}
    if fn == "sunflower":
        c = r.randint(0, 3)
        return {"l": r.randint(1, 4), "c": c, "m": c + r.randint(1, 3)}
    if fn == "star_clique":
        nc = r.randint(1, 5)
        return {"n_star": r.randint(1, 5), "n_clique": nc, "d_max": r.randint(0, nc - 1)}
    if fn == "trivial_hypergraph":
        return {"n": r.randint(0, 9)}
    raise KeyError(fn)


def gen_script(r, fn, params):
    """scripted draws: geometric jumps that hit index 0, the last index, one past it"""
    py, nps = [], []
    p = None
    M = None
    if fn == "uniform_erdos_renyi_hypergraph":
        p = params["p"]
        n, m = params["n"], params["m"]
        M = (n ** m if params["multiedges"] else math.comb(n, m)) - 1
    elif fn == "fast_random_hypergraph":
        p = params["ps"][0]
        order = params.get("order") or [i + 1 for i in range(len(params["ps"]))]
        M = math.comb(params["n"], order[0] + 1) - 1
    elif fn in ("uniform_HSBM",):
        p = 0.3
        M = None
    if p is not None and 0 < p < 1:
        if M is not None and M >= 0:
            plan = r.choice([[1], [M + 1], [M + 2], [1, M], [M, 1, 1], [1] * min(M + 2, 12), [M + 1, 1]])
            if M > 10 ** 6:
                plan = [1, 1]
        else:
            plan = [r.choice([1, 1, 2, 3]) for _ in range(r.randint(1, 6))]
        py = [r_for_geometric(max(1, g), p) for g in plan]
    else:
        py = [r.choice([0.0, 1.0 - 2.0 ** -53, 0.5]) for _ in range(r.randint(0, 4))]
    pp = params.get("p", None)
    for _ in range(r.randint(0, 6)):
        cand = [0.0, 1.0 - 2.0 ** -53, 0.5]
        for q in ([pp] if isinstance(pp, float) else []) + list(params.get("ps", []) if isinstance(params.get("ps"), list) else []):
            if 0 < q < 1:
                cand += [q, float(np.nextafter(q, 1.0)), float(np.nextafter(q, 0.0))]
        nps.append(r.choice(cand))
    return {"py": py, "np": nps, "plan_p": p, "M": M}


# ---------------------------------------------------------------------------
def call_generator(xgi, fn, params, seed_kw, graph=None):
    import networkx as nx
    kw = dict(params)
    if "G" in kw:
        if graph is not None:
            G = graph  # the caller's own graph object, used again
        else:
            G = nx.Graph()
            G.add_nodes_from(kw["G"]["nodes"])
            G.add_edges_from(kw["G"]["edges"])
        kw["G"] = G
    if fn == "uniform_HSBM":
        kw["p"] = np.array(kw["p"])
    if fn == "dcsbm_hypergraph":
        kw["omega"] = np.array(kw["omega"])
    f = getattr(xgi, fn)
    import inspect
    if "seed" in inspect.signature(f).parameters:
        kw.update(seed_kw)
    return f(**kw), kw


def do_generate(sim, rec):
    out = _generate_once(sim, rec, "")
    if out is not None and rec.get("again") and not sim.world.findings:
        # what a generator returns belongs to the caller: change it, then ask for the same network
        # again -- the promise holds for the second result as for the first
        with warnings.catch_warnings():
            warnings.simplefilter("ignore")
            try:
                ns = list(out.nodes)
                if ns:
                    out.remove_node(ns[0])
                (out.add_simplex if hasattr(out, "add_simplex") else out.add_edge)(
                    (["__x__"], ["__y__"]) if isinstance(out, sim.xgi.DiHypergraph) else ["__x__", "__y__"])
            except Exception:
                pass
        sim.world.stats["generate_again_after_mutating_result"] += 1
        params = dec(rec["params"])
        graph = None
        if "G" in params and _LASTKW.get("G") is not None:
            # the caller's own graph object again, rewired in place (same numbers of nodes and edges)
            graph = _LASTKW["G"]
            es = list(graph.edges)
            non = [(a, b) for i, a in enumerate(graph.nodes) for b in list(graph.nodes)[i + 1:] if not graph.has_edge(a, b)]
            if es and non:
                r = random.Random(rec["seed"])
                graph.remove_edge(*r.choice(es))
                graph.add_edge(*r.choice(non))
            params["G"] = {"nodes": list(graph.nodes), "edges": [list(e) for e in graph.edges]}
        _generate_once(sim, rec, " [second call, after the first result was modified]", params, graph)
    _LASTKW.clear()
    return None


_LASTKW = {}


def _generate_once(sim, rec, tag, params=None, graph=None):
    w = sim.world
    xgi = sim.xgi
    fn = rec["fn"]
    if not hasattr(xgi, fn):
        return None
    params = dec(rec["params"]) if params is None else params
    mode = rec["mode"]
    w.stats["op:generate." + fn] += 1
    w.stats["rng_mode:" + mode] += 1
    seed_kw = {"seed": rec["seed"]} if mode == "seed" else {"seed": None}
    set_global_state(rec["seed"] + 17)
    script = rec.get("script") or {}
    exc = None
    out = None
    kw = None
    with warnings.catch_warnings():
        warnings.simplefilter("ignore")
        try:
            if mode == "adversarial":
                with Scripted(script.get("py"), script.get("np")) as sc:
                    out, kw = call_generator(xgi, fn, params, seed_kw)
                w.stats["scripted_draws_consumed"] += sc.py_used + sc.np_used
            else:
                out, kw = call_generator(xgi, fn, params, seed_kw, graph)
            _LASTKW.clear()
            _LASTKW.update({"G": (kw or {}).get("G")})
        except Exception as ex:  # noqa
            exc = ex
    w.logev("generate", rec["uid"], fn, canon(params), mode, "ok" if exc is None else type(exc).__name__)
    fake = dict(rec, op="gen:" + fn, fault={"kind": mode})
    if exc is not None:
        w.find({"C16"}, "generator_raised", fake, "gen", f"{fn}({params!r}) [{mode}]: {type(exc).__name__}: {exc}")
        return None
    try:
        snap, anomalies = snapshot(out)
    except Exception as ex:  # noqa
        w.find({"C16"}, "generator_returned_non_network", fake, "gen", f"{fn}: {type(ex).__name__}: {ex}")
        return None
    bad = [(a[0], f"{a[1]!r} {a[2]}") for a in anomalies] + integrity(snap)
    problems = [(c, d) for c, d in bad]
    problems += check_promise(w, fn, params, kw, snap, out, mode, script)
    for clause, detail in problems:
        w.find({"C16"}, clause, fake, snap["kind"], f"{fn}({params!r}) [{mode}]{tag}: {detail}"[:900])
    w.states.add(E.hashlib.md5(E.structural_key(snap).encode()).hexdigest())
    return out


def edge_sets(snap):
    return [frozenset(snap["members"][e]) for e in snap["edges"]]


def check_promise(w, fn, params, kw, snap, out, mode, script):
    P = []
    nodes = snap["nodes"]
    nodeset = set(nodes)
    es = edge_sets(snap)
    for s in es:
        if not s <= nodeset:
            P.append(("edge_not_subset_of_nodes", repr(csort(s))))

    def need_nodes(expected):
        # "exactly the requested node set": a set -- the order in which a generator creates the
        # nodes is not promised
        if set(nodes) != set(expected) or len(nodes) != len(list(expected)):
            P.append(("wrong_node_set", f"nodes {nodes!r}, expected {list(expected)!r}"))

    def note_p(p):
        if p == 0:
            w.probes["probability_zero"] += 1
        if p == 1:
            w.probes["probability_one"] += 1

    if fn in ("fast_random_hypergraph", "random_hypergraph"):
        n = params["n"]
        need_nodes(range(n))
        ps = params["ps"]
        orders = params.get("order") or [i + 1 for i in range(len(ps))]
        allowed = {d + 1 for d in orders}
        for s in es:
            if len(s) not in allowed:
                P.append(("edge_of_unrequested_size", repr(csort(s))))
        if len(set(orders)) == len(orders):
            for d, p in zip(orders, ps):
                note_p(p)
                of = [s for s in es if len(s) == d + 1]
                if len(set(of)) != len(of):
                    P.append(("repeated_edge", f"order {d}"))
                if p == 0 and of:
                    P.append(("edges_with_probability_zero", f"order {d}: {len(of)}"))
                if p == 1 and set(of) != {frozenset(c) for c in combinations(range(n), d + 1)}:
                    P.append(("probability_one_not_complete", f"order {d}: {len(of)} of {math.comb(n, d + 1)}"))
        if mode == "adversarial" and fn == "fast_random_hypergraph" and script.get("M") is not None and \
                script.get("plan_p") and 0 < script["plan_p"] < 1:
            M = script["M"]
            d0 = orders[0] + 1
            last = frozenset(range(n - d0, n)) if d0 <= n else None
            first = frozenset(range(d0)) if d0 <= n else None
            of = [s for s in es if len(s) == d0]
            if last in of:
                w.probes["skip_sampling_landed_on_last_index"] += 1
            if first in of:
                w.probes["skip_sampling_landed_on_index_0"] += 1
            if not of and M >= 0:
                w.probes["skip_sampling_one_past_last_index"] += 1
    elif fn == "uniform_erdos_renyi_hypergraph":
        n, m, p = params["n"], params["m"], params["p"]
        note_p(p)
        need_nodes(range(n))
        for s in es:
            if len(s) != m:
                P.append(("edge_not_of_size_m", repr(csort(s))))
        if not params["multiedges"] and len(set(es)) != len(es):
            P.append(("repeated_edge", ""))
        if p == 0 and es:
            P.append(("edges_with_probability_zero", str(len(es))))
        if p == 1 and set(es) != {frozenset(c) for c in combinations(range(n), m)}:
            P.append(("probability_one_not_complete", f"{len(set(es))} of {math.comb(n, m)}"))
        if mode == "adversarial" and 0 < p < 1 and not params["multiedges"] and m <= n:
            if frozenset(range(n - m, n)) in es:
                w.probes["skip_sampling_landed_on_last_index"] += 1
            if frozenset(range(m)) in es:
                w.probes["skip_sampling_landed_on_index_0"] += 1
            if not es:
                w.probes["skip_sampling_one_past_last_index"] += 1
    elif fn in ("uniform_HSBM", "uniform_HPPM"):
        n, m = params["n"], params["m"]
        need_nodes(range(n))
        for s in es:
            if len(s) != m:
                P.append(("edge_not_of_size_m", repr(csort(s))))
        if fn == "uniform_HSBM":
            sizes = params["sizes"]
            p = np.array(params["p"])
            bounds = np.cumsum([0] + sizes)
            block_of = {}
            for b in range(len(sizes)):
                for v in range(bounds[b], bounds[b + 1]):
                    block_of[v] = b
            parts = [list(range(bounds[b], bounds[b + 1])) for b in range(len(sizes))]
            present = set(es)
            for blk in itertools.product(range(len(sizes)), repeat=m):
                note_p(float(p[blk]))
                if p[blk] == 1:
                    for tup in itertools.product(*(parts[b] for b in blk)):
                        if len(set(tup)) == m and frozenset(tup) not in present:
                            P.append(("probability_one_not_complete", f"block {blk}: {tup!r} missing"))
                            break
            for s in present:
                blks = sorted(block_of[v] for v in s)
                if all(p[perm] == 0 for perm in set(itertools.permutations(blks))):
                    P.append(("edges_with_probability_zero", f"{csort(s)!r} in blocks {blks!r}"))
    elif fn == "uniform_hypergraph_configuration_model":
        k = kw["k"]
        m = params["m"]
        need_nodes(list(params["k"].keys()))
        for s in es:
            if len(s) != m:
                P.append(("edge_not_of_size_m", repr(csort(s))))
        for v in nodes:
            deg = sum(1 for s in es if v in s)
            if deg > k[v]:
                P.append(("degree_exceeds_prescribed", f"node {v!r}: {deg} > {k[v]}"))
    elif fn in ("chung_lu_hypergraph", "dcsbm_hypergraph"):
        if set(nodes) != set(params["k1"]) or len(nodes) != len(params["k1"]):
            P.append(("wrong_node_set", f"{nodes!r} vs keys {list(params['k1'])!r}"))
        for e in snap["edges"]:
            if e not in params["k2"]:
                P.append(("edge_id_not_prescribed", repr(e)))
    elif fn == "watts_strogatz_hypergraph":
        n, d = params["n"], params["d"]
        note_p(params["p"])
        need_nodes(range(n))
        for s in es:
            if not 1 <= len(s) <= d:
                P.append(("edge_size_out_of_range", repr(csort(s))))
        if params["p"] == 0:
            import xgi as _x
            ref = _x.ring_lattice(n, d, params["k"], params["l"])
            if sorted(map(sorted, es)) != sorted(map(sorted, ref.edges.members())):
                P.append(("p_zero_is_not_the_ring_lattice", ""))
    elif fn == "complete_hypergraph":
        N = params["N"]
        need_nodes(range(N))
        if "order" in params:
            want = [frozenset(c) for c in combinations(range(N), params["order"] + 1)]
        else:
            lo = 1 if params["include_singletons"] else 2
            want = [frozenset(c) for k in range(lo, params["max_order"] + 2) for c in combinations(range(N), k)]
        if sorted(map(sorted, es)) != sorted(map(sorted, want)):
            P.append(("complete_hypergraph_wrong", f"{len(es)} edges, expected {len(want)} each exactly once"))
    elif fn == "random_simplicial_complex":
        N, ps = params["N"], params["ps"]
        need_nodes(range(N))
        P += [(c, d) for c, d in closure(es)]
        top = len(ps)
        for s in es:
            if len(s) - 1 > top:
                P.append(("simplex_above_max_order", repr(csort(s))))
        for i, p in enumerate(ps):
            note_p(p)
            d = i + 1
            if p == 1 and not {frozenset(c) for c in combinations(range(N), d + 1)} <= set(es):
                P.append(("probability_one_not_complete", f"order {d}"))
        if ps and ps[-1] == 0 and any(len(s) - 1 == top for s in es):
            P.append(("edges_with_probability_zero", f"order {top}"))
    elif fn in ("flag_complex", "flag_complex_d2", "random_flag_complex", "random_flag_complex_d2"):
        P += [(c, d) for c, d in closure(es)]
        if len(set(es)) != len(es):
            P.append(("duplicate_simplex", ""))
        if fn in ("random_flag_complex", "random_flag_complex_d2"):
            need_nodes(range(params["N"]))
        mo = params.get("max_order", 2)
        import networkx as nx
        if fn in ("flag_complex", "flag_complex_d2"):
            G = kw["G"]
            promote_all = not params.get("ps") if fn == "flag_complex" else params.get("p2") is None
        else:
            G = nx.Graph()
            G.add_nodes_from(nodes)
            G.add_edges_from(tuple(s) for s in es if len(s) == 2)
            promote_all = True
        cliques = {frozenset(c) for c in nx.enumerate_all_cliques(G) if 2 <= len(c) <= mo + 1}
        have = {s for s in es if len(s) >= 2}
        if promote_all and have != cliques:
            P.append(("flag_complex_not_the_cliques", f"extra={sorted(map(csort, have - cliques))[:3]!r} "
                      f"missing={sorted(map(csort, cliques - have))[:3]!r}"))
        if not have <= {frozenset(c) for c in nx.enumerate_all_cliques(G) if len(c) >= 2}:
            P.append(("simplex_that_is_not_a_clique", ""))
        if any(len(s) - 1 > mo for s in es):
            P.append(("simplex_above_max_order", ""))
    elif fn == "ring_lattice":
        need_nodes(range(params["n"]))
        for s in es:
            if not 1 <= len(s) <= params["d"]:
                P.append(("edge_size_out_of_range", repr(csort(s))))
    elif fn == "sunflower":
        l, c, m = params["l"], params["c"], params["m"]
        core = frozenset(range(c))
        if len(es) != l or any(len(s) != m or not core <= s for s in es):
            P.append(("sunflower_wrong", f"{len(es)} petals"))
        for a, b in combinations(es, 2):
            if a & b != core:
                P.append(("sunflower_petals_overlap", ""))
                break
    elif fn == "star_clique":
        ns, nc, dm = params["n_star"], params["n_clique"], params["d_max"]
        need_nodes(range(ns + nc))
        want = [frozenset((0, i)) for i in range(1, ns)] + [frozenset((0, ns))] + \
            [frozenset(c) for d in range(1, dm + 1) for c in combinations(range(ns, ns + nc), d + 1)]
        if sorted(map(sorted, es)) != sorted(map(sorted, want)):
            P.append(("star_clique_wrong", ""))
    elif fn == "trivial_hypergraph":
        need_nodes(range(params["n"]))
        if es:
            P.append(("trivial_hypergraph_has_edges", ""))
    return P


def closure(es):
    present = set(es)
    for s in present:
        mm = csort(s)
        for k in range(2, len(mm)):
            for sub in combinations(mm, k):
                if frozenset(sub) not in present:
                    return [("not_downward_closed", f"{list(sub)!r} missing under {mm!r}")]
    if any(len(s) == 0 for s in present):
        return [("empty_simplex", "")]
    return []


COVER_FNS = ["fast_random_hypergraph", "uniform_erdos_renyi_hypergraph", "uniform_erdos_renyi_multi",
             "random_hypergraph", "uniform_HSBM_one_block"]


def do_coverage(sim, rec):
    """Every admissible edge has probability p > 0 of being generated.  Over K = 90 seeds with
    p >= 0.5 a given edge is absent from all runs with probability <= 2^-90; the union must
    therefore be the complete set (a sampler that can never produce some edge -- e.g. one that
    stops one index short -- fails here whatever its internals are)."""
    w = sim.world
    xgi = sim.xgi
    import math
    which, n, m, p, s0 = rec["which"], rec["n"], rec["m"], rec["p"], rec["seed"]
    w.stats["op:coverage." + which] += 1
    union = set()
    K = 90
    with warnings.catch_warnings():
        warnings.simplefilter("ignore")
        try:
            for i in range(K):
                if which == "fast_random_hypergraph":
                    H = xgi.fast_random_hypergraph(n, [p], order=[m - 1], seed=s0 + i)
                elif which == "random_hypergraph":
                    H = xgi.random_hypergraph(n, [p], order=[m - 1], seed=s0 + i)
                elif which == "uniform_erdos_renyi_hypergraph":
                    H = xgi.uniform_erdos_renyi_hypergraph(n, m, p, seed=s0 + i)
                elif which == "uniform_erdos_renyi_multi":
                    H = xgi.uniform_erdos_renyi_hypergraph(n, m, p, multiedges=True, seed=s0 + i)
                else:
                    H = xgi.uniform_HSBM(n, m, np.full([1] * m, p), [n], seed=s0 + i)
                union |= {frozenset(e) for e in H.edges.members()}
        except Exception as ex:  # noqa
            w.find({"C16"}, "generator_raised", dict(rec, op="coverage:" + which), "gen",
                   f"{which}(n={n}, m={m}, p={p}): {type(ex).__name__}: {ex}")
            return None
    want = {frozenset(c) for c in combinations(range(n), m)}
    missing = want - union
    w.logev("coverage", rec["uid"], which, n, m, p, len(missing))
    if missing:
        w.find({"C16"}, "edge_never_generated", dict(rec, op="coverage:" + which), "gen",
               f"{which}(n={n}, m={m}, p={p}): over {K} seeds the node set(s) {sorted(map(csort, missing))[:3]!r} "
               f"never appear although each has probability {p} per run")
    return None


def do_decoders(sim, rec):
    """exhaustive: the index decodings are bijections onto combinations / tuples / block products"""
    w = sim.world
    n, m = rec["n"], rec["m"]
    from xgi.generators import uniform as U
    fake = dict(rec, op="decoders")
    w.stats["op:decoders"] += 1
    with warnings.catch_warnings():
        warnings.simplefilter("error")
        try:
            if m <= n:
                got = [tuple(U._index_to_edge_comb(i, n, m)) for i in range(math.comb(n, m))]
                if set(got) != set(combinations(range(n), m)) or len(set(got)) != len(got):
                    w.find({"C16"}, "index_to_edge_comb_not_a_bijection", fake, "dec", f"n={n} m={m}")
            got = [tuple(U._index_to_edge_prod(i, n, m)) for i in range(n ** m)]
            if set(got) != set(itertools.product(range(n), repeat=m)) or len(set(got)) != len(got):
                w.find({"C16"}, "index_to_edge_prod_not_a_bijection", fake, "dec", f"n={n} m={m}")
            r = random.Random(rec["uid"])
            sizes = [r.randint(1, 4) for _ in range(m)]
            tot = int(np.prod(sizes))
            got = [tuple(U._index_to_edge_partition(i, sizes, m)) for i in range(tot)]
            if set(got) != set(itertools.product(*(range(s) for s in sizes))) or len(set(got)) != len(got):
                w.find({"C16"}, "index_to_edge_partition_not_a_bijection", fake, "dec", f"sizes={sizes}")
        except Exception as ex:  # noqa
            w.find({"C16"}, "decoder_raised", fake, "dec", f"n={n} m={m}: {type(ex).__name__}: {ex}")
    w.logev("decoders", rec["uid"], n, m)
    return None


def do_decoders_large(sim, rec):
    """beyond the exhaustive range (n up to 60, m up to 20): decoded combinations must be valid
    (m distinct nodes of range(n)) and distinct for distinct indices; the probed indices sit at the
    ends, around the boundaries where the first element changes, and at random places.  (The
    boundaries only choose where to look; no particular enumeration order is assumed.)"""
    w = sim.world
    n, m = rec["n"], rec["m"]
    from xgi.generators import uniform as U
    r = random.Random(rec["uid"] * 31 + n)
    N = math.comb(n, m)
    idx = {0, 1, N - 1, N - 2}
    acc = 0
    for first in range(0, n - m + 1):
        acc += math.comb(n - 1 - first, m - 1)
        for d in (-2, -1, 0, 1):
            idx.add(acc + d)
    for _ in range(24):
        x = r.randrange(N)
        idx.update((x, x + 1))
    idx = sorted(i for i in idx if 0 <= i < N)
    fake = dict(rec, op="decoders_large")
    w.stats["op:decoders_large"] += 1
    seen = {}
    with warnings.catch_warnings():
        warnings.simplefilter("ignore")
        try:
            for i in idx:
                c = tuple(U._index_to_edge_comb(i, n, m))
                if len(set(c)) != m or any((not isinstance(x, (int, np.integer))) or x < 0 or x >= n for x in c):
                    w.find({"C16"}, "index_to_edge_comb_invalid", fake, "dec", f"n={n} m={m} index={i}: {c!r}")
                    return None
                key = tuple(sorted(int(x) for x in c))
                if key in seen:
                    w.find({"C16"}, "index_to_edge_comb_not_a_bijection", fake, "dec",
                           f"n={n} m={m}: indices {seen[key]} and {i} decode to the same combination {key!r}")
                    return None
                seen[key] = i
        except Exception as ex:  # noqa
            w.find({"C16"}, "decoder_raised", fake, "dec", f"n={n} m={m}: {type(ex).__name__}: {ex}")
    w.logev("decoders_large", rec["uid"], n, m, len(idx))
    return None


def exec_extra(sim, rec):
    if rec["op"] == "decoders_large":
        return do_decoders_large(sim, rec)
    if rec["op"] == "decoders":
        return do_decoders(sim, rec)
    if rec["op"] == "coverage":
        return do_coverage(sim, rec)
    return do_generate(sim, rec)
