"""C07 -- copies, pickles and same-class constructors are equal and independent.

The schedule is the interleaving of edits across a source and its twins.  Every actor is
compared with its own model after every step (engine.check_all_actors), so any bleed-through
shows up as the *untouched* twin diverging from its model.
"""
from . import common

EXTRA_OPS = {"twin", "nested_edit", "cyclic_twin", "big_complex"}
EXPECTED_PROBES = ["nested_attribute_edit_on_copy", "twin_of_frozen:copy"]


def configure(cfg, r, tier):
    cfg["initial"] = [r.choice(["H", "H", "DH", "SC"])]
    cfg["nested_attrs"] = True
    cfg["p_twin"] = r.choice([0.08, 0.12, 0.2])
    cfg["p_nested"] = r.choice([0.05, 0.1, 0.2])
    cfg["twin_hows"] = r.choice([["copy"], ["copy", "pickle"], ["copy", "pickle", "ctor"], ["ctor", "copy"]])
    # freeze now and then: a copy of a frozen network is unfrozen and editable
    for k in ("H", "DH", "SC"):
        cfg["ops"][k]["freeze"] = 0.3
        cfg["ops"][k]["set_net_attr"] = 2.5
    cfg["faults"] = False
    if cfg["initial"] == ["SC"] and r.random() < 0.15:
        cfg["profile"] = "large"  # size thresholds in the replay of a big complex (copy, constructor)


def next_record(sim):
    g = sim.gen
    x = g.r.random()
    if x < sim.cfg["p_twin"]:
        return common.gen_twin(sim, sim.cfg["twin_hows"])
    if x < sim.cfg["p_twin"] + sim.cfg["p_nested"]:
        return common.gen_nested_edit(sim)
    if g.r.random() < 0.0005:
        return common.gen_big_complex(sim, ["copy", "copy", "ctor", "pickle"])
    if x < sim.cfg["p_twin"] + sim.cfg["p_nested"] + 0.02:
        return {"uid": g.next_uid(), "op": "cyclic_twin", "kind": g.r.choice(["H", "DH", "SC"]),
                "how": g.r.choice(["copy", "copy", "pickle", "ctor"]), "shape": g.r.randrange(5),
                "where": g.r.choice(["node", "edge", "net"])}
    return None


def exec_extra(sim, rec):
    if rec["op"] == "twin":
        return common.do_twin(sim, rec)
    if rec["op"] == "cyclic_twin":
        return do_cyclic_twin(sim, rec)
    if rec["op"] == "big_complex":
        return common.do_big_complex(sim, rec, {"C07"})
    return common.do_nested_edit(sim, rec)


def do_cyclic_twin(sim, rec):
    """nested mutable attribute values may be *cyclic* (a list that contains itself, an attribute
    dict reachable from its own values, two attribute dicts that refer to each other).  A
    self-contained experiment on a small fresh network: the twin must be produced, the cycle must be
    reproduced inside the twin, and an edit through the twin's cycle must not show in the source."""
    import pickle
    import warnings
    w = sim.world
    xgi = sim.xgi
    kind, how, shape, where = rec["kind"], rec["how"], rec["shape"], rec["where"]
    if shape == 4:
        return do_identity_labels_twin(sim, rec)
    with warnings.catch_warnings():
        warnings.simplefilter("ignore")
        if kind == "H":
            A = xgi.Hypergraph([[1, 2, 3], [3, 4]])
        elif kind == "SC":
            A = xgi.SimplicialComplex([[1, 2, 3], [3, 4]])
        else:
            A = xgi.DiHypergraph([([1, 2], [3]), ([3], [4])])
        e0 = list(A.edges)[0]

        def record(X):
            return X.nodes[1] if where == "node" else (X.edges[e0] if where == "edge" else X._net_attr)

        d = record(A)
        if shape == 0:
            cyc = [5]
            cyc.append(cyc)            # a list that contains itself
            d["loop"] = cyc
        elif shape == 1:
            d["me"] = d                # the attribute dict itself among its values
        elif shape == 2:
            d["box"] = [d]             # ... inside a list
        else:
            other = A.nodes[2] if where != "node" else A.nodes[3]
            d["partner"] = other       # two records that refer to each other
            other["partner"] = d
        w.stats["op:cyclic_twin." + how] += 1
        fake = dict(rec, op="cyclic_twin:" + how)
        try:
            if how == "copy":
                B = A.copy()
            elif how == "pickle":
                B = pickle.loads(pickle.dumps(A))
            else:
                B = type(A)(A)
        except BaseException as ex:  # noqa (RecursionError is what an unmemoised deep copy ends in)
            if isinstance(ex, (KeyboardInterrupt, SystemExit)) or type(ex).__name__ == "StepTimeout":
                raise
            w.find({"C07"}, "twin_failed_on_cyclic_attribute_value", fake, kind,
                   f"{how} of a network whose {where} attributes contain a reference cycle (shape {shape}): "
                   f"{type(ex).__name__}: {str(ex)[:100]}")
            return None
        bd = record(B)
        problems = []
        if how == "ctor":
            # (independence of nested values is stated for copy(); the constructor must produce the
            # network, not necessarily deep copies of the values)
            if set(B.nodes) != set(A.nodes) or set(B.edges) != set(A.edges):
                w.find({"C07"}, "cyclic_attribute_value_not_copied_independently", fake, kind, "nodes / edges differ")
            return None
        if bd is d:
            problems.append("the twin holds the source's attribute record itself")
        key = {0: "loop", 1: "me", 2: "box", 3: "partner"}[shape]
        if key not in bd:
            problems.append(f"attribute {key!r} missing in the twin")
        else:
            v = bd[key]
            if shape == 0 and not (isinstance(v, list) and len(v) == 2 and v[1] is v and v is not cyc):
                problems.append("the self-containing list was not reproduced as a new self-containing list")
            if shape == 1 and how != "ctor" and (v is d):
                problems.append("the twin's record refers to the *source's* record")
            if shape == 2 and (not isinstance(v, list) or v is d["box"] or (v and v[0] is d)) and how != "ctor":
                problems.append("the twin's nested list is shared with / refers to the source")
            if shape == 0:
                v.append(99)
                if len(cyc) != 2:
                    problems.append("appending to the twin's list changed the source's list")
        if set(B.nodes) != set(A.nodes) or set(B.edges) != set(A.edges):
            problems.append("nodes / edges differ")
        for pr in problems:
            w.find({"C07"}, "cyclic_attribute_value_not_copied_independently", fake, kind,
                   f"{how}, {where} attributes, shape {shape}: {pr}")
            break
    return None


class Tok:
    """a label that is hashed and compared by identity (a user-defined object without __eq__)"""

    def __init__(self, name):
        self.name = name

    def __repr__(self):
        return f"Tok({self.name})"


def do_identity_labels_twin(sim, rec):
    """"any labels": node labels that are compared by identity.  The twin must have as many nodes
    and edges, every edge must still refer to nodes of the twin, degrees and attributes must
    match; copy() and the constructor keep the label objects themselves."""
    import pickle
    import warnings
    w = sim.world
    xgi = sim.xgi
    kind, how = rec["kind"], rec["how"]
    a, b, c, d = Tok("a"), Tok("b"), Tok("c"), Tok("d")
    with warnings.catch_warnings():
        warnings.simplefilter("ignore")
        if kind == "H":
            A = xgi.Hypergraph([[a, b, c], [c, d]])
        elif kind == "SC":
            A = xgi.SimplicialComplex([[a, b, c], [c, d]])
        else:
            A = xgi.DiHypergraph([([a, b], [c]), ([c], [d])])
        A.add_node(Tok("iso"))
        A.set_node_attributes({a: {"color": "red"}})
        w.stats["op:identity_labels_twin." + how] += 1
        fake = dict(rec, op="identity_labels_twin:" + how)
        try:
            B = A.copy() if how == "copy" else (pickle.loads(pickle.dumps(A)) if how == "pickle" else type(A)(A))
        except Exception as ex:  # noqa
            w.find({"C07"}, "twin_failed_on_identity_labels", fake, kind, f"{how}: {type(ex).__name__}: {ex}")
            return None
        problems = []
        if B.num_nodes != A.num_nodes or B.num_edges != A.num_edges:
            problems.append(f"{B.num_nodes} nodes / {B.num_edges} edges, the source has {A.num_nodes} / {A.num_edges}")
        else:
            mem = (lambda X, e: set().union(*X.edges.dimembers(e))) if kind == "DH" else (lambda X, e: set(X.edges.members(e)))
            if any(not mem(B, e) <= set(B.nodes) for e in B.edges):
                problems.append("an edge of the twin refers to a label that is not a node of the twin")
            if sorted(len(mem(B, e)) for e in B.edges) != sorted(len(mem(A, e)) for e in A.edges):
                problems.append("edge sizes differ")
            if sorted(len(v) for v in B.nodes.attrs.asdict().values()) != sorted(len(v) for v in A.nodes.attrs.asdict().values()):
                problems.append("node attributes differ")
            if how != "pickle" and set(map(id, B.nodes)) != set(map(id, A.nodes)):
                problems.append("the node labels of the twin are not the source's label objects")
        for pr in problems[:1]:
            w.find({"C07"}, "identity_labels_not_preserved", fake, kind, f"{how}: {pr}")
    return None
