"""C07 -- copies, pickles and same-class constructors are equal and independent.

The schedule is the interleaving of edits across a source and its twins.  Every actor is
compared with its own model after every step (engine.check_all_actors), so any bleed-through
shows up as the *untouched* twin diverging from its model.
"""
from . import common

EXTRA_OPS = {"twin", "nested_edit"}
EXPECTED_PROBES = ["nested_attribute_edit_on_copy", "twin_of_frozen:copy"]


def configure(cfg, r, tier):
    cfg["initial"] = [r.choice(["H", "H", "DH", "SC"])]
    cfg["nested_attrs"] = True
    cfg["p_twin"] = r.choice([0.08, 0.12, 0.2])
    cfg["p_nested"] = r.choice([0.05, 0.1, 0.2])
    cfg["twin_hows"] = r.choice([["copy"], ["copy", "pickle"], ["copy", "pickle", "ctor"], ["ctor", "copy"]])
    # freeze now and then: a copy of a frozen network is unfrozen and editable
    for k in ("H", "DH", "SC"):
        cfg["ops"][k]["freeze"] = 0.3
        cfg["ops"][k]["set_net_attr"] = 2.5
    cfg["faults"] = False
    if cfg["initial"] == ["SC"] and r.random() < 0.15:
        cfg["profile"] = "large"  # size thresholds in the replay of a big complex (copy, constructor)


def next_record(sim):
    g = sim.gen
    x = g.r.random()
    if x < sim.cfg["p_twin"]:
        return common.gen_twin(sim, sim.cfg["twin_hows"])
    if x < sim.cfg["p_twin"] + sim.cfg["p_nested"]:
        return common.gen_nested_edit(sim)
    return None


def exec_extra(sim, rec):
    if rec["op"] == "twin":
        return common.do_twin(sim, rec)
    return common.do_nested_edit(sim, rec)
