"""C17 -- a seed fully determines every stochastic result.

The schedule *is* the quantifier ("all interleavings of other RNG consumers between the two
calls").  For every public callable with a `seed` parameter (enumerated by introspection; per
callable argument recipes; uncovered ones are reported):

    r1 = f(args, seed=s);  0..6 scheduler-drawn perturbations;  r2 = f(fresh args, seed=s)

and r1 must equal r2 exactly.  Perturbations: draws from `random` / `numpy.random`, reseeding
either with another value, calling the same function with another seed, calling other xgi RNG
consumers (random_edge_shuffle, another generator, eigsh-based code).  Same process, as the
statement says.  Arguments are re-created for the second call.
"""
import inspect
import random
import warnings

import numpy as np

from .. import engine as E
from ..labels import canon, csort, dec, enc
from ..snap import snapshot
from . import c16, common

EXTRA_OPS = {"seeded_pair"}
EXPECTED_PROBES = ["reseed_of_same_generator_between_calls", "other_xgi_rng_consumer_between_calls",
                   "same_function_other_seed_between_calls", "same_arguments_other_seed_around_calls"]
PERTURB = ["py_draw", "np_draw", "py_reseed", "np_reseed", "same_fn_other_seed", "edge_shuffle", "other_generator",
           "eigsh", "np_default_rng", "py_getrandbits", "np_choice", "same_args_other_seed"]

# argument recipes (besides seed) -----------------------------------------------------------
NETWORK_FNS = {"shuffle_hyperedges", "random_layout", "pairwise_spring_layout", "bipartite_spring_layout",
               "barycenter_spring_layout", "weighted_barycenter_spring_layout", "spectral_clustering"}


def seeded_callables(xgi):
    out = []
    for name in sorted(dir(xgi)):
        if name.startswith("_"):
            continue
        f = getattr(xgi, name)
        if not callable(f) or isinstance(f, type):
            continue
        try:
            sig = inspect.signature(f)
        except (TypeError, ValueError):
            continue
        if "seed" in sig.parameters:
            out.append(name)
    return out


def configure(cfg, r, tier):
    cfg["initial"] = []
    cfg["epilogue"] = False
    cfg["faults"] = False
    cfg["steps"] = r.randint(3, 8) if tier == "quick" else r.randint(6, 20)


def next_record(sim):
    g = sim.gen
    r = g.r
    fns = seeded_callables(sim.xgi)
    # (spectral_clustering is the one seeded callable with an eigensolver and an iterative
    # clustering inside: three times the weight of the others)
    fn = r.choice(fns + ["spectral_clustering"] * 2 if "spectral_clustering" in fns else fns)
    seed = 0 if r.random() < 0.15 else r.randrange(1 << 16)  # 0 is a seed too (falsy)
    if r.random() < 0.12:
        # whatever the underlying generator accepts as a seed is a seed: a string, a float, a
        # numpy integer (a function that rejects one of them must reject it both times)
        seed = r.choice([f"run-{seed}", seed + 0.5, {"npi": seed}])
    rec = {"uid": g.next_uid(), "op": "seeded_pair", "fn": fn, "seed": seed,
           "argseed": r.randrange(1 << 30),
           "perturb": [[r.choice(PERTURB), r.randrange(1 << 16)] for _ in range(r.randint(0, 6))]}
    # "regardless of earlier calls to the same function": other consumers also run *before* the
    # first call (e.g. the same arguments with another seed, which may fill a cache)
    rec["mutate_result"] = r.random() < 0.2
    rec["pre"] = [[r.choice(["same_args_other_seed", "same_args_other_seed", "same_fn_other_seed", "py_draw",
                             "np_reseed"]), r.randrange(1 << 16)] for _ in range(r.choice([0, 0, 1, 2]))]
    return rec


def make_args(xgi, fn, argseed):
    """fresh arguments for one call (re-created for the second call), or None = uncovered"""
    r = random.Random(argseed)
    if fn in c16.GENS:
        params = None
        if fn in ("fast_random_hypergraph", "uniform_erdos_renyi_hypergraph", "uniform_HPPM") and r.random() < 0.3:
            params = c16.sparse_large_params(r, fn)  # tiny p, large n
        if params is None:
            params = c16.gen_params(r, fn, huge_rate=0.2)
        if fn == "uniform_erdos_renyi_hypergraph" and params["n"] <= 9 and r.random() < 0.5:
            params["p"] = r.choice([0.2, 0.5, 0.8])
        return ("gen", params)
    if fn in NETWORK_FNS:
        n = r.randint(4, 8)
        edges = []
        for _ in range(r.randint(3, 7)):
            k = r.randint(2, 4)
            edges.append(sorted(r.sample(range(n), min(k, n))))
        H = xgi.Hypergraph(edges)
        H.add_nodes_from(range(n))
        kw = {}
        if fn == "shuffle_hyperedges":
            sizes = sorted({len(e) for e in edges})
            kw = {"order": r.choice(sizes) - 1, "p": r.choice([0.3, 0.7, 1.0])}
        if fn == "spectral_clustering":
            # connected, no isolated nodes (the Laplacian needs it)
            H = xgi.Hypergraph([[i, (i + 1) % n] for i in range(n)] + edges)
            kw = {"k": r.choice([2, 3])}
            if r.random() < 0.6:
                # highly symmetric networks have degenerate spectra: the eigensolver restarts
                from itertools import combinations
                n = r.randint(4, 6)
                shape = r.choice(["complete2", "complete23", "ring", "blocks", "blocks", "blocks"])
                if shape == "ring":
                    H = xgi.Hypergraph([[i, (i + 1) % n] for i in range(n)])
                elif shape == "blocks":
                    # disjoint identical blocks: nodes of one block have identical embedding rows
                    size, nb = r.choice([2, 3, 3, 4]), r.choice([2, 2, 3])
                    H = xgi.Hypergraph([list(range(b * size, (b + 1) * size)) for b in range(nb)])
                    kw = {"k": r.choice([2, min(3, nb)])}
                else:
                    es = [list(c) for c in combinations(range(n), 2)]
                    if shape == "complete23":
                        es += [list(c) for c in combinations(range(n), 3)]
                    H = xgi.Hypergraph(es)
        return ("net", (H, kw))
    return None


def canon_result(out):
    if isinstance(out, dict):
        return {repr(k): canon_result(v) for k, v in out.items()}
    if isinstance(out, np.ndarray):
        return out.tolist()
    if isinstance(out, (tuple, list)):
        return [canon_result(x) for x in out]
    try:
        snap, _ = snapshot(out)
        return [snap["kind"], [repr(n) for n in snap["nodes"]], [repr(e) for e in snap["edges"]],
                [canon(snap["members"][e]) for e in snap["edges"]], canon(snap["nattr"]), canon(snap["eattr"])]
    except Exception:
        pass
    if isinstance(out, (np.integer, np.floating)):
        return out.item()
    return repr(out) if not isinstance(out, (int, float, str, type(None))) else out


def call(xgi, fn, argseed, seed):
    spec = make_args(xgi, fn, argseed)
    if spec is None:
        return "UNCOVERED", None
    with warnings.catch_warnings():
        warnings.simplefilter("ignore")
        try:
            if spec[0] == "gen":
                out, _ = c16.call_generator(xgi, fn, spec[1], {"seed": seed})
            else:
                H, kw = spec[1]
                out = getattr(xgi, fn)(H, seed=seed, **kw)
            _LAST["out"] = out
            return "ok", canon_result(out)
        except Exception as ex:  # noqa
            return "raise", f"{type(ex).__name__}: {ex}"


_LAST = {}


def mutate_result(out):
    """the caller owns what a seeded function returned: change it in place"""
    with warnings.catch_warnings():
        warnings.simplefilter("ignore")
        try:
            if hasattr(out, "remove_node"):
                ns = list(out.nodes)
                if ns:
                    out.remove_node(ns[0])
            elif isinstance(out, dict) and out:
                out.pop(next(iter(out)))
            elif isinstance(out, np.ndarray) and out.size:
                out.flat[0] = -7.0
        except Exception:
            pass


def perturb(sim, kind, val, fn, argseed):
    xgi = sim.xgi
    w = sim.world
    w.stats["perturbation:" + kind] += 1
    with warnings.catch_warnings():
        warnings.simplefilter("ignore")
        try:
            if kind == "py_draw":
                [random.random() for _ in range(val % 7 + 1)]
            elif kind == "np_draw":
                np.random.random(val % 7 + 1)
            elif kind == "py_getrandbits":
                random.getrandbits(31)
                random.shuffle(list(range(5)))
            elif kind == "np_choice":
                np.random.choice(10, size=3)
                np.random.randint(0, 10)
            elif kind == "py_reseed":
                random.seed(val)
                w.probes["reseed_of_same_generator_between_calls"] += 1
            elif kind == "np_reseed":
                np.random.seed(val)
                w.probes["reseed_of_same_generator_between_calls"] += 1
            elif kind == "np_default_rng":
                np.random.default_rng(val).random(3)
            elif kind == "same_fn_other_seed":
                call(xgi, fn, argseed + 1, val)
                w.probes["same_function_other_seed_between_calls"] += 1
            elif kind == "same_args_other_seed":
                call(xgi, fn, argseed, val)
                w.probes["same_arguments_other_seed_around_calls"] += 1
            elif kind == "edge_shuffle":
                H = xgi.Hypergraph([[1, 2, 3], [3, 4], [4, 5, 6]])
                H.random_edge_shuffle()
                w.probes["other_xgi_rng_consumer_between_calls"] += 1
            elif kind == "other_generator":
                other = ["fast_random_hypergraph", "watts_strogatz_hypergraph", "random_simplicial_complex",
                         "uniform_erdos_renyi_hypergraph", "random_layout"][val % 5]
                call(xgi, other, val, val % 3 if val % 2 else None)
                w.probes["other_xgi_rng_consumer_between_calls"] += 1
            elif kind == "eigsh":
                H = xgi.Hypergraph([[0, 1], [1, 2], [2, 3], [3, 0], [0, 2, 3]])
                xgi.spectral_clustering(H, 2, seed=val)
                w.probes["other_xgi_rng_consumer_between_calls"] += 1
        except Exception:
            pass


def do_pair(sim, rec):
    w = sim.world
    xgi = sim.xgi
    fn = rec["fn"]
    if not hasattr(xgi, fn):
        return None
    cov = w.extra.setdefault("seeded_callable_coverage", {})
    if make_args(xgi, fn, rec["argseed"]) is not None:
        for kind, val in rec.get("pre", []):
            perturb(sim, kind, val, fn, rec["argseed"])
    rec = dict(rec, seed=dec(rec["seed"]))
    st1, r1 = call(xgi, fn, rec["argseed"], rec["seed"])
    if st1 == "UNCOVERED":
        cov[fn + "|uncovered"] = cov.get(fn + "|uncovered", 0) + 1
        return None
    if rec.get("mutate_result") and st1 == "ok":
        mutate_result(_LAST.pop("out", None))
        w.stats["first_result_modified_between_calls"] += 1
    _LAST.clear()
    for kind, val in rec["perturb"]:
        perturb(sim, kind, val, fn, rec["argseed"])
    st2, r2 = call(xgi, fn, rec["argseed"], rec["seed"])
    _LAST.clear()
    cov[fn + "|" + st1] = cov.get(fn + "|" + st1, 0) + 1
    w.stats["op:seeded_pair." + fn] += 1
    w.stats["perturbations_between_calls"] += len(rec["perturb"])
    w.logev("seeded_pair", rec["uid"], fn, rec["seed"], st1, st2, canon([p[0] for p in rec["perturb"]]))
    fake = dict(rec, op="seeded:" + fn)
    if st1 != st2:
        w.find({"C17"}, "seeded_call_outcome_differs", fake, "rng",
               f"{fn}(seed={rec['seed']}): first call {st1} {r1 if st1 == 'raise' else ''}, second call {st2} "
               f"{r2 if st2 == 'raise' else ''} after {[p[0] for p in rec['perturb']]}")
    elif st1 == "ok" and r1 != r2:
        w.find({"C17"}, "seeded_result_differs", fake, "rng",
               f"{fn}(seed={rec['seed']}) twice with {[p[0] for p in rec['perturb']]} in between: "
               f"{str(r1)[:200]} != {str(r2)[:200]}")
    elif st1 == "ok":
        import hashlib
        w.states.add(hashlib.md5(repr((fn, r1)).encode()).hexdigest())
    return None


def exec_extra(sim, rec):
    return do_pair(sim, rec)
