"""Per-property simulator configurations (swarm style: drawn per run from the run's PRNG)."""

import random

H_OPS = {
    "add_node": 3, "add_nodes_from": 3, "remove_node": 4, "remove_nodes_from": 2, "add_edge": 8,
    "add_edges_from": 8, "add_weighted_edges_from": 2, "add_node_to_edge": 5, "remove_edge": 3,
    "remove_edges_from": 2, "remove_node_from_edge": 4, "set_node_attributes": 2,
    "set_edge_attributes": 2, "set_net_attr": 1, "update": 2, "clear": 0.3, "clear_edges": 0.4,
    "double_edge_swap": 3, "random_edge_shuffle": 2, "merge_duplicate_edges": 2, "dup_edge": 3, "near_dup_edge": 2,
    "cleanup": 1, "convert_labels_to_integers": 0.7, "largest_connected_hypergraph": 0.7,
}
DH_OPS = {
    "add_node": 3, "add_nodes_from": 3, "remove_node": 5, "remove_nodes_from": 2, "add_edge": 8,
    "add_edges_from": 8, "add_node_to_edge": 5, "remove_edge": 3, "remove_edges_from": 2,
    "remove_node_from_edge": 4, "set_node_attributes": 2, "set_edge_attributes": 2,
    "set_net_attr": 1, "clear": 0.3, "cleanup": 1, "convert_labels_to_integers": 0.7,
}
SC_OPS = {
    "add_node": 2, "add_nodes_from": 2, "remove_node": 3, "remove_nodes_from": 2, "add_simplex": 8,
    "add_simplices_from": 8, "add_weighted_simplices_from": 2, "remove_simplex_id": 4,
    "remove_simplex_ids_from": 3, "close": 1, "cleanup": 1, "alias_add_edge": 1,
    "alias_add_edges_from": 1, "alias_add_weighted_edges_from": 0.7, "alias_remove_edge": 1,
    "alias_remove_edges_from": 1, "set_node_attributes": 1, "set_edge_attributes": 1,
    "set_net_attr": 0.5, "clear": 0.2, "convert_labels_to_integers": 0.5,
    "largest_connected_hypergraph": 0.5,
}
ALL_FAULTS = ["oneshot", "none_member", "unhashable_member", "dying", "empty_in_bulk", "none_node",
              "unhashable_node", "attr_pairs", "attr_junk", "exotic_id"]


def swarm(r, table, p_drop=0.25):
    """Per run, drop a random subset of op families and re-weight the rest."""
    out = {}
    for op, w in table.items():
        if r.random() < p_drop:
            continue
        out[op] = w * r.choice([0.5, 1, 1, 2])
    if not out:
        out = dict(table)
    return out


def base_cfg(r, tier):
    cfg = {
        "profile": r.choice(["ints", "ints", "strs", "mixed", "ints", "strs", "mixed", "wide", "npints"])
        if r.random() > 0.04 else "large",
        "faults": False,
        "fault_rate": 0.0,
        "fault_kinds": [],
        "order": True,
        "counts": False,
        "sc_invariants": True,
        "epilogue": True,
        "ops": {"H": swarm(r, H_OPS), "DH": swarm(r, DH_OPS), "SC": swarm(r, SC_OPS)},
        "steps": r.randint(15, 60) if tier == "quick" else r.randint(30, 200),
    }
    return cfg


def with_faults(cfg, r, p=0.5):
    if r.random() < p:
        cfg["faults"] = True
        cfg["fault_rate"] = r.choice([0.1, 0.17, 0.17, 0.3])
        ks = [k for k in ALL_FAULTS if r.random() < 0.7]
        cfg["fault_kinds"] = ks or ["oneshot"]
    return cfg


def config(prop, seed, tier):
    r = random.Random(seed ^ 0x5EED)
    cfg = base_cfg(r, tier)
    if prop in ("C01", "C02", "C03", "C05"):
        from . import prov

        if prop == "C01":
            cfg["initial"] = ["H"] * r.choice([1, 1, 2])
            with_faults(cfg, r, 0.6)
            cfg["prov_kinds"] = ["H"]
        elif prop == "C02":
            cfg["initial"] = ["DH"] * r.choice([1, 1, 2])
            with_faults(cfg, r, 0.6)
            cfg["prov_kinds"] = ["DH"]
        elif prop == "C03":
            cfg["initial"] = ["SC"] * r.choice([1, 1, 2])
            with_faults(cfg, r, 0.5)
            cfg["prov_kinds"] = ["SC"]
            if r.random() < 0.08:
                cfg["profile"] = "large"  # size thresholds: simplices with a thousand faces
        else:
            cfg["initial"] = [r.choice(["H", "H", "DH", "SC"]) for _ in range(r.choice([1, 2]))]
            with_faults(cfg, r, 0.4)
        prov.configure(cfg, r, tier)
    else:
        from . import registry

        registry.configure(prop, cfg, r, tier)
    # labels / attribute names from the fuzzing dictionary of the tree under test (own generator:
    # the draws above are not disturbed)
    rd = random.Random(seed ^ 0xD1C7)
    cfg["dict_words"] = []
    if rd.random() < 0.35:
        from ..dictionary import weighted

        ws = weighted()
        if ws:
            cfg["dict_words"] = [rd.choice(ws) for _ in range(2)]
    return cfg
