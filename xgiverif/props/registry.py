"""Configuration of the properties that need more than the core world (filled in per property)."""


def configure(prop, cfg, r, tier):
    raise KeyError(prop)


def hooks_for(prop):
    return None
