"""Property -> hooks module (operations, oracles and configuration beyond the core world)."""
import importlib

MODULES = {"C01": "prov", "C02": "prov", "C03": "prov", "C05": "prov", "C04": "c04", "C06": "c06", "C07": "c07", "C08": "c08", "C09": "c09", "C10": "c10", "C11": "c11", "C16": "c16", "C17": "c17", "C18": "c18", "C19": "c19"}


def hooks_for(prop):
    name = MODULES.get(prop)
    if name is None:
        return None
    return importlib.import_module(f"xgiverif.props.{name}")


def configure(prop, cfg, r, tier):
    h = hooks_for(prop)
    if h is None:
        raise KeyError(prop)
    h.configure(cfg, r, tier)
