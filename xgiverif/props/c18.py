"""C18 -- frozen networks cannot be structurally modified.

freeze() is an operation of the world and subhypergraph results are born frozen.  From then on
(1) every structural call of the reference alphabet that *would* change an unfrozen copy must
raise XGIError and leave the network unchanged (engine.judge_frozen), and (2) the mutator
surface is *discovered by probing*: every public method of the class and every xgi function
with an in_place parameter is tried on an unfrozen copy(); if it changes the structure there,
the same call is replayed on the frozen network and must be rejected.
"""
import inspect
import random
import warnings

from .. import engine as E
from ..labels import canon, csort
from ..snap import snapshot
from . import common

EXTRA_OPS = {"twin", "subhypergraph", "probe_frozen"}
EXPECTED_PROBES = ["twin_of_frozen:copy", "probe_replayed_on_frozen", "close_on_frozen_complex_that_is_not_closed"]


def configure(cfg, r, tier):
    cfg["initial"] = [r.choice(["H", "H", "DH", "SC"]) for _ in range(r.choice([1, 2]))]
    for k in ("H", "DH", "SC"):
        cfg["ops"][k]["freeze"] = r.choice([1.5, 3, 5])
    cfg["sc_foreign_ops"] = r.random() < 0.35
    if cfg["sc_foreign_ops"]:
        # inherited Hypergraph mutators can leave a complex that is not downward closed: freeze it
        # in that state too (close() on it must then be rejected)
        cfg["sc_invariants"] = False
        cfg["ops"]["SC"]["random_edge_shuffle"] = 3.0
        cfg["ops"]["SC"]["close"] = 3.0
    cfg["faults"] = False
    cfg["p_twin"] = 0.08
    cfg["p_sub"] = 0.05
    cfg["p_probe"] = r.choice([0.1, 0.2, 0.3])


def next_record(sim):
    g = sim.gen
    w = sim.world
    if sim.cfg.get("sc_foreign_ops"):
        # a complex that an inherited mutator has left unclosed: freeze it, then ask it to close()
        for name, a in w.actors.items():
            if a.kind == "SC" and not a.model.is_closed() and g.r.random() < 0.4:
                return g.rec(name, "close" if a.model.frozen else "freeze", {})
    x = g.r.random()
    if x < sim.cfg["p_twin"]:
        return common.gen_twin(sim, ["copy", "copy", "pickle", "ctor"])
    if x < sim.cfg["p_twin"] + sim.cfg["p_sub"]:
        return common.gen_subhypergraph(sim, ("H", "SC"))
    if x < sim.cfg["p_twin"] + sim.cfg["p_sub"] + sim.cfg["p_probe"]:
        frozen = [n for n, a in w.actors.items() if a.model.frozen]
        if frozen:
            name = g.r.choice(frozen)
            surf = surface(sim.xgi, w.actors[name].sut)
            if surf:
                return {"uid": g.next_uid(), "op": "probe_frozen", "actor": name, "target": g.r.choice(surf),
                        "argseed": g.r.randrange(1 << 30)}
    return None


def exec_extra(sim, rec):
    if rec["op"] == "twin":
        return common.do_twin(sim, rec)
    if rec["op"] == "subhypergraph":
        return common.do_subhypergraph(sim, rec, {"C18", "C19"})
    return do_probe(sim, rec)


# ---------------------------------------------------------------------------
NOT_MUTATORS = {"copy", "dual", "freeze", "has_simplex", "set_node_attributes", "set_edge_attributes"}


def surface(xgi, obj):
    """public methods of the class + library functions with an in_place parameter"""
    out = []
    for name in sorted(dir(type(obj))):
        if name.startswith("_") or name in NOT_MUTATORS:
            continue
        if isinstance(getattr(type(obj), name, None), property):
            continue
        if callable(getattr(type(obj), name, None)):
            out.append("m:" + name)
    for name in sorted(dir(xgi)):
        f = getattr(xgi, name)
        if callable(f) and not isinstance(f, type):
            try:
                sig = inspect.signature(f)
            except (TypeError, ValueError):
                continue
            if "in_place" in sig.parameters:
                out.append("f:" + name)
            elif "create_using" in sig.parameters:
                # documented: a network *instance* given as create_using is cleared and re-used,
                # i.e. these functions modify it in place
                out.append("c:" + name)
    return out


def create_using_args(xgi, name, r):
    """data argument for a function with a create_using parameter, or None (uncovered)"""
    import numpy as np
    import pandas as pd
    if name.startswith(("empty_",)):
        return ()
    if name == "trivial_hypergraph":
        return (3,)
    if name in ("to_hypergraph", "to_simplicial_complex", "from_hyperedge_list"):
        return ([["p", "q"], ["q", "r", "s"]],)
    if name == "to_dihypergraph":
        return ([(["p"], ["q"])],)
    if name in ("from_hyperedge_dict", "from_simplex_dict"):
        return ({"e9": ["p", "q"], "e8": ["q", "r"]},)
    if name == "from_incidence_matrix":
        return (np.array([[1, 0], [1, 1]]),)
    if name == "from_bipartite_pandas_dataframe":
        return (pd.DataFrame([["p", "e9"], ["q", "e9"]]),)
    if name in ("parse_edgelist",):
        return (["p q", "q r s"],)
    if name == "parse_bipartite_edgelist":
        return (["p e9", "q e9"],)
    return None


def synth_args(r, target, obj, kind):
    """Arguments that *would* change the structure of an unfrozen copy, synthesised from
    parameter names and the current state.  Returns (args, kwargs) or None (uncovered)."""
    name = target[2:]
    nodes = list(obj.nodes)
    edges = list(obj.edges)
    newn, newe = "zz9", "ee9"
    f = getattr(obj, name) if target.startswith("m:") else None
    import xgi as _x
    if f is None:
        f = getattr(_x, name)
    try:
        sig = inspect.signature(f)
    except (TypeError, ValueError):
        return None
    args, kwargs = [], {}
    adding = name.startswith(("add", "update"))
    removing = name.startswith("remove")
    for pname, p in sig.parameters.items():
        if p.kind in (p.VAR_KEYWORD, p.VAR_POSITIONAL):
            continue
        if target.startswith("f:") and not args and pname not in ("in_place",) and p.default is p.empty:
            args.append(obj)
            continue
        v = None
        if pname == "in_place":
            kwargs["in_place"] = True
            continue
        if pname in ("members",) or (pname == "edge" and adding and "node" not in name):
            v = ([nodes[0]] if nodes else [1], [newn]) if kind == "DH" else [nodes[0] if nodes else 1, newn]
        elif pname in ("ebunch_to_add",):
            v = [([nodes[0]] if nodes else [1], [newn])] if kind == "DH" else [[nodes[0] if nodes else 1, newn]]
        elif pname == "ebunch" and adding:
            v = [(nodes[0] if nodes else 1, newn, 0.5)]
        elif pname == "ebunch" and removing:
            if not edges:
                return None
            v = [r.choice(edges)]
        elif pname == "edges" and adding:
            kwargs["edges"] = [[nodes[0] if nodes else 1, newn]]
            continue
        elif pname == "nodes" and name == "update":
            kwargs["nodes"] = [newn + "b"]
            continue
        elif pname in ("node",) and adding and "edge" not in name:
            v = newn
        elif pname in ("nodes_for_adding",):
            v = [newn]
        elif pname in ("node",) and adding:
            v = newn
        elif pname in ("edge",) and adding:
            v = r.choice(edges) if edges and r.random() < 0.7 else newe
        elif pname in ("n", "node") and removing:
            if name == "remove_node_from_edge":
                cands = [(e, n) for e in edges for n in sorted(_members(obj, e, kind), key=repr)]
                if not cands:
                    return None
                e, n = r.choice(cands)
                args_map = {"edge": e, "node": n}
                v = n
                kwargs["_pair"] = args_map
            else:
                if not nodes:
                    return None
                v = r.choice(nodes)
        elif pname == "edge" and removing:
            v = "__PAIR__"
        elif pname == "nodes" and removing:
            if not nodes:
                return None
            v = [r.choice(nodes)]
        elif pname == "idx" and removing:
            if not edges:
                return None
            v = r.choice(edges)
        elif pname == "direction":
            v = "__DIR__"
        elif pname in ("n_id1", "n_id2", "e_id1", "e_id2") and name == "double_edge_swap":
            v = "__SWAP__" + pname
        elif p.default is not p.empty:
            continue
        else:
            return None
        args.append(v)
    # resolve placeholders
    pair = kwargs.pop("_pair", None)
    if any(a == "__PAIR__" for a in args if isinstance(a, str)):
        cands = [(e, n) for e in edges for n in sorted(_members(obj, e, kind), key=repr)]
        if not cands:
            return None
        e, n = r.choice(cands)
        d = None
        if kind == "DH":
            d = "in" if n in obj.edges.tail(e) else "out"
        out = []
        for pname, a in zip([q for q in sig.parameters if sig.parameters[q].kind not in (2, 4)], args):
            pass
        new = []
        for a in args:
            if isinstance(a, str) and a == "__PAIR__":
                new.append(e)
            elif isinstance(a, str) and a == "__DIR__":
                new.append(d)
            else:
                new.append(a)
        # the node argument was chosen independently: overwrite it with the paired one
        pnames = [q for q in sig.parameters if sig.parameters[q].kind not in (2, 4)]
        for i, q in enumerate(pnames[:len(new)]):
            if q == "node":
                new[i] = n
        args = new
    args = ["in" if (isinstance(a, str) and a == "__DIR__") else a for a in args]
    if any(isinstance(a, str) and a.startswith("__SWAP__") for a in args):
        sw = _find_swap(obj, r)
        if sw is None:
            return None
        m = {"n_id1": sw[0], "n_id2": sw[1], "e_id1": sw[2], "e_id2": sw[3]}
        args = [m[a[8:]] if isinstance(a, str) and a.startswith("__SWAP__") else a for a in args]
    if name == "random_edge_shuffle":
        pairs = [(x, y) for x in edges for y in edges if x != y
                 and _members(obj, x, kind) - _members(obj, y, kind) and _members(obj, y, kind) - _members(obj, x, kind)]
        if not pairs:
            return None
        x, y = r.choice(pairs)
        kwargs.update(e_id1=x, e_id2=y)
    return args, kwargs


def _members(obj, e, kind):
    return set(obj.edges.members(e))


def _find_swap(obj, r):
    edges = list(obj.edges)
    cands = []
    for e1 in edges:
        for e2 in edges:
            if e1 == e2:
                continue
            m1, m2 = obj.edges.members(e1), obj.edges.members(e2)
            for n1 in sorted(m1 - m2, key=repr):
                for n2 in sorted(m2 - m1, key=repr):
                    cands.append((n1, n2, e1, e2))
    return r.choice(cands) if cands else None


def do_probe(sim, rec):
    w = sim.world
    act = w.actors.get(rec["actor"])
    if act is None or not act.model.frozen:
        return None
    target = rec["target"]
    name = target[2:]
    xgi = sim.xgi
    if target.startswith("m:") and not hasattr(act.sut, name):
        return rec["actor"]
    if target.startswith(("f:", "c:")) and not hasattr(xgi, name):
        return rec["actor"]
    cov = w.extra.setdefault("probe_surface", {})
    r = random.Random(rec["argseed"])
    if target.startswith("c:"):
        return do_probe_create_using(sim, rec, act, name)
    # 1. on an unfrozen copy
    with warnings.catch_warnings():
        warnings.simplefilter("ignore")
        try:
            cp = act.sut.copy()
        except Exception:
            return rec["actor"]
        sa = synth_args(r, target, cp, act.kind)
        if sa is None:
            cov[f"{act.kind}.{target}:no_args"] = cov.get(f"{act.kind}.{target}:no_args", 0) + 1
            return rec["actor"]
        args, kwargs = sa
        before, _ = snapshot(cp)
        random.seed(rec["argseed"])
        try:
            if target.startswith("m:"):
                getattr(cp, name)(*args, **kwargs)
            else:
                getattr(xgi, name)(*[cp if a is cp else a for a in args], **kwargs)
        except Exception:
            pass
        after, _ = snapshot(cp)
    changed = E.structure_of(before) != E.structure_of(after)
    if not changed:
        cov[f"{act.kind}.{target}:no_change_on_copy"] = cov.get(f"{act.kind}.{target}:no_change_on_copy", 0) + 1
        return rec["actor"]
    # 2. replay on the frozen network itself
    w.probes["probe_replayed_on_frozen"] += 1
    cov[f"{act.kind}.{target}:replayed"] = cov.get(f"{act.kind}.{target}:replayed", 0) + 1
    pre, _ = snapshot(act.sut)
    random.seed(rec["argseed"])
    exc = None
    with warnings.catch_warnings():
        warnings.simplefilter("ignore")
        try:
            if target.startswith("m:"):
                getattr(act.sut, name)(*args, **kwargs)
            else:
                getattr(xgi, name)(*[act.sut if a is cp else a for a in args], **kwargs)
        except Exception as ex:  # noqa
            exc = ex
    post, _ = snapshot(act.sut)
    w.logev("probe_frozen", rec["uid"], rec["actor"], target, canon([args, kwargs]) if not any(x is cp for x in args) else "net",
            "ok" if exc is None else type(exc).__name__)
    fake = {"op": "probe:" + name, "uid": rec["uid"]}
    if E.structure_of(pre) != E.structure_of(post):
        w.find({"C18"}, "frozen_network_modified", fake, act.kind,
               f"{name}{tuple(a for a in args if a is not cp)!r} {kwargs!r} changes an unfrozen copy and changed the frozen "
               f"network too ({'returned' if exc is None else 'raised ' + type(exc).__name__})")
    elif exc is None:
        w.find({"C18"}, "frozen_call_not_rejected", fake, act.kind,
               f"{name} changes an unfrozen copy but returned normally on the frozen network")
    elif not E.is_lib_exc(xgi, exc):
        w.find({"C18"}, "frozen_wrong_error_type", fake, act.kind, f"{name}: {type(exc).__name__}: {exc}")
    act.snap = post
    from .. import models as M
    act.model = M.model_from_snapshot(act.kind, post, frozen=True)
    return rec["actor"]


def do_probe_create_using(sim, rec, act, name):
    """xgi.<name>(data, create_using=<network instance>) recycles the instance: on a frozen one it
    must raise the library's error and leave it unchanged."""
    w = sim.world
    xgi = sim.xgi
    cov = w.extra.setdefault("probe_surface", {})
    r = random.Random(rec["argseed"])
    key = f"{act.kind}.c:{name}"
    data = create_using_args(xgi, name, r)
    if data is None:
        cov[key + ":no_args"] = cov.get(key + ":no_args", 0) + 1
        return rec["actor"]
    f = getattr(xgi, name)
    with warnings.catch_warnings():
        warnings.simplefilter("ignore")
        try:
            cp = act.sut.copy()
        except Exception:
            return rec["actor"]
        before, _ = snapshot(cp)
        try:
            f(*data, create_using=cp)
        except Exception:
            pass
        after, _ = snapshot(cp)
    if E.structure_of(before) == E.structure_of(after):
        cov[key + ":no_change_on_copy"] = cov.get(key + ":no_change_on_copy", 0) + 1
        return rec["actor"]
    w.probes["probe_replayed_on_frozen"] += 1
    cov[key + ":replayed"] = cov.get(key + ":replayed", 0) + 1
    pre, _ = snapshot(act.sut)
    exc = None
    with warnings.catch_warnings():
        warnings.simplefilter("ignore")
        try:
            f(*data, create_using=act.sut)
        except Exception as ex:  # noqa
            exc = ex
    post, _ = snapshot(act.sut)
    w.logev("probe_frozen", rec["uid"], rec["actor"], "c:" + name, "ok" if exc is None else type(exc).__name__)
    fake = {"op": "probe:create_using:" + name, "uid": rec["uid"]}
    if E.structure_of(pre) != E.structure_of(post):
        w.find({"C18"}, "frozen_network_modified", fake, act.kind,
               f"{name}(..., create_using=<frozen network>) changed it "
               f"({'returned' if exc is None else 'raised ' + type(exc).__name__}): "
               f"{len(pre['nodes'])} nodes / {len(pre['edges'])} edges -> {len(post['nodes'])} / {len(post['edges'])}")
    elif exc is None:
        w.find({"C18"}, "frozen_call_not_rejected", fake, act.kind,
               f"{name}(..., create_using=<frozen network>) would rebuild an unfrozen copy but returned normally")
    elif not E.is_lib_exc(xgi, exc):
        w.find({"C18"}, "frozen_wrong_error_type", fake, act.kind, f"{name}: {type(exc).__name__}: {exc}")
    act.snap = post
    from .. import models as M
    act.model = M.model_from_snapshot(act.kind, post, frozen=True)
    return rec["actor"]
