"""C06 -- views and statistics are live and mutually consistent.

After every step the views and statistics of the touched actor are recomputed through the
public API and compared with values computed from the reference model; `hold` steps capture
view / stat objects which are then re-evaluated after every later mutation (a value cached
at first access, or a view bound to a dict that a mutator rebinds, fails here).
"""
import random
import warnings

import numpy as np

from .. import engine as E
from ..labels import canon, csort, fresh
from . import common

EXTRA_OPS = {"hold", "twin"}
EXPECTED_PROBES = ["held_object_older_than_5_mutations", "mutator_ran_with_empty_edge_present",
                   "filterby_threshold_within_rounding_of_a_value"]

HOLD_SPECS_U = ["nodes", "edges", "nodes.degree", "nodes.degree(order=1)", "nodes.degree(weight=w)", "edges.size",
                "edges.order", "edges.size(degree=1)", "nodes.attrs(color)", "edges.attrs(w,0)",
                "nodes.multi(degree,attrs)", "edges.multi(size,order)"]
HOLD_SPECS_D = ["nodes", "edges", "nodes.degree", "nodes.in_degree", "nodes.out_degree", "nodes.degree(order=1)",
                "edges.size", "edges.head_size", "edges.tail_size", "edges.tail_order", "nodes.attrs(color)",
                "edges.multi(size,head_size)"]


def configure(cfg, r, tier):
    cfg["initial"] = [r.choice(["H", "H", "DH", "SC"]) for _ in range(r.choice([1, 2]))]
    cfg["faults"] = False
    cfg["counts"] = True
    cfg["numeric_attrs"] = True
    cfg["float_weight_key"] = True  # an extra attribute "fw" with values whose sums are inexact
    cfg["steps"] = r.randint(12, 45) if tier == "quick" else r.randint(30, 120)
    cfg["p_hold"] = r.choice([0.06, 0.1, 0.15])
    cfg["p_twin"] = 0.03
    cfg["families"] = r.choice([2, 3, 4])
    for k in ("H", "DH", "SC"):
        cfg["ops"][k]["freeze"] = 0.15


def init(sim):
    sim.holds = {}


def next_record(sim):
    g = sim.gen
    w = sim.world
    if not w.actors:
        return None
    x = g.r.random()
    if x < sim.cfg["p_twin"]:
        return common.gen_twin(sim, ["copy", "pickle"])
    if x < sim.cfg["p_twin"] + sim.cfg["p_hold"]:
        name = g.r.choice(list(w.actors))
        kind = w.actors[name].kind
        spec = g.r.choice(HOLD_SPECS_D if kind == "DH" else HOLD_SPECS_U)
        if g.r.random() < 0.5:
            spec = random_spec(g.r, kind)
        return {"uid": g.next_uid(), "op": "hold", "actor": name, "spec": spec, "slot": g.r.randrange(4)}
    return None


# ---------------------------------------------------------------------------
# model-side definitions
def m_members(m, e):
    return m.all_members(e)


def m_memberships(m, n):
    return [e for e in m.edges if n in m.all_members(e)]


def m_degree(m, n, order=None, weight=None, side=None):
    tot = 0
    for e in m.edges:
        if m.kind == "DH":
            t, h = m.edges[e]
            mem = set(t) | set(h)
            if side == "in":
                inc = n in h
            elif side == "out":
                inc = n in t
            else:
                inc = n in mem
        else:
            mem = m.edges[e]
            inc = n in mem
        if not inc:
            continue
        if order is not None and len(mem) != order + 1:
            continue
        tot += m.eattr[e].get(weight, 1) if weight else 1
    return tot


def m_total_degree(m, n):
    return len(m_memberships(m, n))


def m_size(m, e, degree=None, side=None):
    if m.kind == "DH":
        t, h = m.edges[e]
        mem = set(t) if side == "tail" else set(h) if side == "head" else set(t) | set(h)
    else:
        mem = set(m.edges[e])
    if degree is None:
        return len(mem)
    return sum(1 for n in mem if m_total_degree(m, n) == degree)


def parse_spec(spec):
    """'nodes.degree(order=1)' -> (side, name, args, kwargs)"""
    side, rest = spec.split(".", 1) if "." in spec else (spec, None)
    if rest is None:
        return side, None, [], {}
    if "(" in rest:
        name, a = rest[:-1].split("(", 1)
    else:
        name, a = rest, ""
    args, kwargs = [], {}
    for tok in [t for t in a.split(",") if t]:
        if "=" in tok:
            k, v = tok.split("=")
            kwargs[k] = int(v) if v.lstrip("-").isdigit() else v
        else:
            args.append(int(tok) if tok.lstrip("-").isdigit() else tok)
    return side, name, args, kwargs


def model_stat(m, side, name, args, kwargs):
    """expected {id: value} in view order, or raises"""
    if side == "nodes":
        ids = list(m.nodes)
        if name == "degree":
            return {n: m_degree(m, n, kwargs.get("order"), kwargs.get("weight")) for n in ids}
        if name == "in_degree":
            return {n: m_degree(m, n, kwargs.get("order"), kwargs.get("weight"), "in") for n in ids}
        if name == "out_degree":
            return {n: m_degree(m, n, kwargs.get("order"), kwargs.get("weight"), "out") for n in ids}
        if name == "attrs":
            if args:
                missing = args[1] if len(args) > 1 else None
                return {n: m.nodes[n].get(args[0], missing) for n in ids}
            return {n: m.nodes[n] for n in ids}
    else:
        ids = list(m.edges)
        if name == "size":
            return {e: m_size(m, e, kwargs.get("degree")) for e in ids}
        if name == "order":
            return {e: m_size(m, e, kwargs.get("degree")) - 1 for e in ids}
        if name in ("head_size", "tail_size", "head_order", "tail_order"):
            s, what = name.split("_")
            off = 1 if what == "order" else 0
            return {e: m_size(m, e, kwargs.get("degree"), s) - off for e in ids}
        if name == "attrs":
            if args:
                missing = args[1] if len(args) > 1 else None
                return {e: m.eattr[e].get(args[0], missing) for e in ids}
            return {e: m.eattr[e] for e in ids}
    raise KeyError(name)


def sut_stat(obj, side, name, args, kwargs):
    view = getattr(obj, side)
    st = getattr(view, name)
    if args or kwargs:
        st = st(*args, **kwargs)
    return st


def eqv(a, b):
    """value equality tolerant of numpy scalars / NaN"""
    try:
        if isinstance(a, float) and isinstance(b, float) and a != a and b != b:
            return True
        return bool(a == b)
    except Exception:
        return False


def check_formats(w, rec, act, label, st, expected, ids):
    """asdict / aslist / asnumpy / aspandas of one stat agree with `expected` and follow view order"""
    kind = act.kind
    bad = []
    try:
        d = st.asdict()
        if list(d) != ids:
            bad.append(("asdict_order", f"{list(d)!r} vs view {ids!r}"))
        if set(d) != set(ids) or any(not eqv(d[i], expected[i]) for i in ids if i in d):
            bad.append(("stat_value", f"asdict={d!r} expected={expected!r}"))
        lst = st.aslist()
        if len(lst) != len(ids) or any(not eqv(x, expected[i]) for x, i in zip(lst, ids)):
            bad.append(("aslist_mismatch", f"{lst!r} vs {[expected[i] for i in ids]!r}"))
        vals = [expected[i] for i in ids]
        if all(isinstance(v, (int, float, bool, np.integer, np.floating)) for v in vals):
            arr = st.asnumpy()
            if list(arr.shape) != [len(ids)] or any(not eqv(x, v) for x, v in zip(arr.tolist(), vals)):
                bad.append(("asnumpy_mismatch", f"{arr!r} vs {vals!r}"))
        if not any(isinstance(v, dict) for v in vals):
            ser = st.aspandas()
            if any(isinstance(i, tuple) for i in ids) or pandas_relabels(ids):
                # pandas turns tuple keys into a MultiIndex (padding with NaN), and an index that
                # mixes ints and floats into float64 (labels above 2**53 are rounded): the labels
                # are pandas' business, only the order of the values is xgi's
                got = [None if (x != x) else x for x in ser.tolist()]
                if len(got) != len(ids) or any(not eqv(x, expected[i]) for x, i in zip(got, ids)
                                               if expected[i] is not None):
                    bad.append(("aspandas_order", f"values {got!r} vs view-ordered {vals!r}"))
            elif list(ser.index) != ids:
                bad.append(("aspandas_order", f"index {list(ser.index)!r} vs view order {ids!r}"))
            elif any(not eqv(ser[i] if not (ser[i] != ser[i]) else None, expected[i]) and not (
                    expected[i] is None and ser[i] != ser[i]) for i in ids):
                if not any(v is None for v in vals):
                    bad.append(("aspandas_mismatch", f"{ser.to_dict()!r} vs {expected!r}"))
    except Exception as ex:  # noqa
        bad.append(("stat_raised", f"{type(ex).__name__}: {ex}"))
    for clause, detail in bad:
        w.find({"C06"}, clause, dict(rec, op="stat:" + label), kind, f"{label}: {detail}"[:700])
    return not bad


# ---------------------------------------------------------------------------
def families(kind):
    base = ["stats", "formats", "multi", "filterby", "filterby_attr", "filterby_self", "bunch", "sum_rule", "isolates_empty"]
    if kind != "DH":
        base += ["neighbors", "lookup", "maximal", "duplicates"]
    return base


def after_step(sim, rec):
    w = sim.world
    target = rec.get("actor") or rec.get("new")
    act = w.actors.get(target)
    if act is None or w.findings:
        return
    if act.kind != "DH" and any(len(v) == 0 for v in act.model.edges.values()):
        w.probes["mutator_ran_with_empty_edge_present"] += 1
    r = random.Random(rec.get("uid", 0) * 31 + 7)
    fams = families(act.kind)
    chosen = r.sample(fams, min(len(fams), sim.cfg.get("families", 3)))
    with warnings.catch_warnings():
        warnings.simplefilter("ignore")
        for fam in chosen:
            globals()["fam_" + fam](sim, w, rec, act, r)
            if w.findings:
                return
        check_holds(sim, w, rec, act)


def random_spec(r, kind):
    """a stat with scheduler-drawn arguments (all combinations of order / weight / degree / missing)"""
    side = r.choice(["nodes", "edges"])
    if side == "nodes":
        name = r.choice(["degree", "degree", "in_degree", "out_degree"] if kind == "DH" else ["degree"])
        if r.random() < 0.25:
            key = r.choice(["color", "w", "weight", "tag", "label"])
            return f"nodes.attrs({key})" if r.random() < 0.5 else f"nodes.attrs({key},{r.choice([0, 1, 7])})"
        args = []
        o = r.choice([None, 0, 1, 2, 3])
        wt = r.choice([None, None, "w", "weight"])
        if o is not None:
            args.append(f"order={o}")
        if wt is not None:
            args.append(f"weight={wt}")
        return f"nodes.{name}" + (f"({','.join(args)})" if args else "")
    names = ["size", "order", "head_size", "tail_size", "head_order", "tail_order"] if kind == "DH" else ["size", "order"]
    if r.random() < 0.25:
        key = r.choice(["color", "w", "weight", "tag"])
        return f"edges.attrs({key})" if r.random() < 0.5 else f"edges.attrs({key},{r.choice([0, 1, 7])})"
    name = r.choice(names)
    d = r.choice([None, None, 0, 1, 2, 3])
    return f"edges.{name}" + (f"(degree={d})" if d is not None else "")


def pandas_relabels(ids):
    """an index that holds both ints and floats is coerced to float64 by pandas: an int above
    2**53 does not survive that"""
    return any(isinstance(i, float) for i in ids) and \
        any(isinstance(i, int) and not isinstance(i, bool) and abs(i) > 2 ** 53 for i in ids)


def fam_stats(sim, w, rec, act, r):
    for _ in range(4):
        eval_spec(w, rec, act, random_spec(r, act.kind), act.sut)
        if w.findings:
            return


def eval_spec(w, rec, act, spec, obj_or_stat, held=False):
    m = act.model
    side, name, args, kwargs = parse_spec(spec)
    kw = dict(kwargs)
    if kw.get("weight") == "w":
        kw["weight"] = "w"
    try:
        expected = model_stat(m, side, name, args, kw)
    except TypeError:
        return True  # non-numeric weights: undefined
    ids = list(m.nodes) if side == "nodes" else list(m.edges)
    try:
        st = obj_or_stat if held else sut_stat(act.sut, side, name, args, kw)
    except Exception as ex:  # noqa
        w.find({"C06"}, "stat_raised", dict(rec, op="stat:" + spec), act.kind, f"{spec}: {type(ex).__name__}: {ex}")
        return False
    return check_formats(w, rec, act, ("held " if held else "") + spec, st, expected, ids)


def fam_formats(sim, w, rec, act, r):
    # per-ID access and view protocol
    m = act.model
    obj = act.sut
    bad = []
    try:
        deg = obj.nodes.degree
        for n in list(m.nodes)[:4]:
            if deg[n] != m_degree(m, n):
                bad.append(("stat_getitem", f"degree[{n!r}]={deg[n]!r}"))
        if len(obj.nodes) != len(m.nodes) or len(obj.edges) != len(m.edges):
            bad.append(("view_len", ""))
        if set(obj.nodes.ids) != set(m.nodes) or set(obj.edges.ids) != set(m.edges):
            bad.append(("view_ids", ""))
        for n in list(m.nodes)[:3]:
            if n not in obj.nodes or obj.nodes[n] != m.nodes[n]:
                bad.append(("view_getitem", f"node {n!r}"))
        if m.nodes:
            vals = [m_degree(m, n) for n in m.nodes]
            if deg.max() != max(vals) or deg.min() != min(vals) or deg.sum() != sum(vals):
                bad.append(("stat_aggregate", f"max/min/sum of degree vs {vals!r}"))
    except Exception as ex:  # noqa
        bad.append(("stat_raised", f"{type(ex).__name__}: {ex}"))
    for clause, detail in bad:
        w.find({"C06"}, clause, dict(rec, op="view_protocol"), act.kind, detail)


def fam_multi(sim, w, rec, act, r):
    m = act.model
    obj = act.sut
    names = ["degree", "in_degree"] if act.kind == "DH" else ["degree", "average_neighbor_degree"]
    ids = list(m.nodes)
    bad = []
    try:
        ms = obj.nodes.multi(names)
        singles = {nm: getattr(obj.nodes, nm).asdict() for nm in names}
        exp_deg = {n: m_degree(m, n) for n in ids}
        if any(not eqv(singles["degree"][n], exp_deg[n]) for n in ids):
            bad.append(("stat_value", "degree inside multi"))
        d = ms.asdict()
        if list(d) != ids or any(list(d[n]) != names or any(not eqv(d[n][nm], singles[nm][n]) for nm in names) for n in ids):
            bad.append(("multi_asdict", repr(d)[:300]))
        dt = ms.asdict(transpose=True)
        if list(dt) != names or any(list(dt[nm]) != ids or any(not eqv(dt[nm][n], singles[nm][n]) for n in ids) for nm in names):
            bad.append(("multi_asdict_transpose", repr(dt)[:300]))
        dl = ms.asdict(inner=list)
        if list(dl) != ids or any(not all(eqv(x, singles[nm][n]) for x, nm in zip(dl[n], names)) for n in ids):
            bad.append(("multi_asdict_list", repr(dl)[:300]))
        ll = ms.aslist()
        if len(ll) != len(ids) or any(not all(eqv(x, singles[nm][n]) for x, nm in zip(row, names)) for row, n in zip(ll, ids)):
            bad.append(("multi_aslist", repr(ll)[:300]))
        lt = ms.aslist(transpose=True)
        if len(lt) != len(names) or any(not all(eqv(x, singles[nm][n]) for x, n in zip(col, ids)) for col, nm in zip(lt, names)):
            bad.append(("multi_aslist_transpose", repr(lt)[:300]))
        ld = ms.aslist(inner=dict)
        if len(ld) != len(ids) or any(any(not eqv(row[nm], singles[nm][n]) for nm in names) for row, n in zip(ld, ids)):
            bad.append(("multi_aslist_dict", repr(ld)[:300]))
        if ids:
            arr = ms.asnumpy()
            if list(arr.shape) != [len(ids), len(names)]:
                bad.append(("multi_asnumpy_shape", repr(arr.shape)))
            df = ms.aspandas()
            if any(isinstance(i, tuple) for i in ids) or pandas_relabels(ids):
                pass  # MultiIndex / float64 index built by pandas: not xgi's labels any more
            elif list(df.index) != ids:
                bad.append(("aspandas_order", f"multi-stat frame index {list(df.index)!r} vs view order {ids!r}"))
            elif list(df.columns) != names or any(not eqv(df[nm][n], singles[nm][n]) for nm in names for n in ids):
                bad.append(("multi_aspandas", repr(df.to_dict())[:300]))
    except Exception as ex:  # noqa
        bad.append(("stat_raised", f"multi: {type(ex).__name__}: {ex}"))
    for clause, detail in bad:
        w.find({"C06"}, clause, dict(rec, op="multi"), act.kind, detail)


MODES = {"eq": lambda a, b: a == b, "neq": lambda a, b: a != b, "lt": lambda a, b: a < b, "gt": lambda a, b: a > b,
         "leq": lambda a, b: a <= b, "geq": lambda a, b: a >= b}


def fam_filterby(sim, w, rec, act, r):
    m = act.model
    obj = act.sut
    side = r.choice(["nodes", "edges"])
    stat = "degree" if side == "nodes" else "size"
    ids = list(m.nodes) if side == "nodes" else list(m.edges)
    val = {i: (m_degree(m, i) if side == "nodes" else m_size(m, i)) for i in ids}
    mode = r.choice(list(MODES) + ["between", "callable"])
    x = r.choice([0, 1, 2, 3])
    try:
        view = getattr(obj, side)
        if mode == "between":
            lo, hi = sorted([x, r.choice([1, 2, 4])])
            got = list(view.filterby(stat, (lo, hi), "between"))
            exp = [i for i in ids if lo <= val[i] <= hi]
        elif mode == "callable":
            got = list(view.filterby(stat, x, lambda a, b: a % 2 == b % 2))
            exp = [i for i in ids if val[i] % 2 == x % 2]
        else:
            use_obj = r.random() < 0.5
            got = list(view.filterby(getattr(view, stat) if use_obj else stat, x, mode))
            exp = [i for i in ids if MODES[mode](val[i], x)]
        if got != exp:
            w.find({"C06"}, "filterby_wrong", dict(rec, op="filterby:" + mode), act.kind,
                   f"{side}.filterby({stat!r}, {x}, {mode!r}) = {got!r}, expected {exp!r}")
    except Exception as ex:  # noqa
        w.find({"C06"}, "stat_raised", dict(rec, op="filterby:" + mode), act.kind, f"{type(ex).__name__}: {ex}")


def fam_filterby_self(sim, w, rec, act, r):
    """filterby against the *same statistic's own values* (no model involved, so float-valued
    statistics can be used): thresholds are taken from the values present, one ulp above or below
    them, and from sums that are not exactly representable (0.1 + 0.2 vs 0.3)."""
    import math
    obj = act.sut
    side = r.choice(["nodes", "edges"])
    view = getattr(obj, side)
    fkey = r.choice(["fw", "fw", "w", "weight"])
    if side == "nodes":
        cands = [("attrs", (fkey, 0.3), {}), ("degree", (), {"weight": "fw"}), ("degree", (), {"weight": "fw", "order": r.choice([1, 2])}),
                 ("average_neighbor_degree", (), {}), ("clustering_coefficient", (), {}), ("local_clustering_coefficient", (), {})]
        if act.kind == "DH":
            cands = cands[:1] + [("degree", (), {}), ("in_degree", (), {}), ("out_degree", (), {})]
    else:
        cands = [("attrs", (fkey, 0.3), {}), ("attrs", (fkey,), {}), ("size", (), {}), ("order", (), {})]
    name, args, kw = r.choice(cands)
    if "clustering" in name or name == "average_neighbor_degree":
        if len(act.model.edges) > 40:
            return  # (quadratic and worse in the number of edges: a 10-node simplex has 1012 faces)
    label = f"{side}.{name}({', '.join([repr(a) for a in args] + [f'{k}={v!r}' for k, v in kw.items()])})"
    try:
        if not hasattr(view, name):
            return
        st = getattr(view, name)(*args, **kw)
        vals = st.asdict()
    except Exception:
        return  # (what the statistic itself does is decided elsewhere)
    nums = [v for v in vals.values() if isinstance(v, (int, float)) and not isinstance(v, bool) and v == v]
    if len(nums) != len(vals) or not nums:
        return
    base = r.choice(nums + [0.3, 0.6])
    x = r.choice([base, base, math.nextafter(float(base), math.inf), math.nextafter(float(base), -math.inf),
                  base * (1 + 1e-12), base + 1e-15])
    mode = r.choice(list(MODES) + ["between"])
    ids = list(view)
    try:
        if mode == "between":
            lo, hi = sorted([x, r.choice(nums)])
            got = list(view.filterby(st, (lo, hi), "between"))
            exp = [i for i in ids if lo <= vals[i] <= hi]
        else:
            got = list(view.filterby(st, x, mode))
            exp = [i for i in ids if MODES[mode](vals[i], x)]
        w.stats["filterby_self:" + ("float" if any(isinstance(v, float) for v in nums) else "int")] += 1
        if mode in ("eq", "neq") and any(v != x and math.isclose(v, x, rel_tol=1e-6) for v in nums):
            w.probes["filterby_threshold_within_rounding_of_a_value"] += 1
        if got != exp:
            w.find({"C06"}, "filterby_disagrees_with_stat_values", dict(rec, op="filterby_self:" + mode), act.kind,
                   f"{label}: filterby(stat, {x!r}, {mode!r}) = {got!r}, but the statistic's own values select {exp!r} "
                   f"(values {dict(list(vals.items())[:8])!r})")
    except Exception as ex:  # noqa
        w.find({"C06"}, "stat_raised", dict(rec, op="filterby_self:" + mode), act.kind, f"{label}: {type(ex).__name__}: {ex}")


def fam_filterby_attr(sim, w, rec, act, r):
    m = act.model
    obj = act.sut
    side = r.choice(["nodes", "edges"])
    table = m.nodes if side == "nodes" else m.eattr
    ids = list(table)
    key = r.choice(["color", "w", "weight", "tag"])
    mode = r.choice(list(MODES) + ["between"])
    missing = r.choice([None, None, 0, 1])
    x = r.choice([0, 1, 2])
    vals = {i: table[i].get(key, missing) for i in ids}
    try:
        if mode == "between":
            exp = [i for i in ids if vals[i] is not None and 0 <= vals[i] <= x]
        else:
            exp = [i for i in ids if vals[i] is not None and MODES[mode](vals[i], x)]
    except TypeError:
        return
    try:
        view = getattr(obj, side)
        if mode == "between":
            got = list(view.filterby_attr(key, (0, x), "between", missing=missing))
        else:
            got = list(view.filterby_attr(key, x, mode, missing=missing))
        if got != exp:
            w.find({"C06"}, "filterby_attr_wrong", dict(rec, op="filterby_attr:" + mode), act.kind,
                   f"{side}.filterby_attr({key!r}, {x}, {mode!r}, missing={missing!r}) = {got!r}, expected {exp!r}")
    except Exception as ex:  # noqa
        w.find({"C06"}, "stat_raised", dict(rec, op="filterby_attr:" + mode), act.kind, f"{type(ex).__name__}: {ex}")


def fam_sum_rule(sim, w, rec, act, r):
    obj = act.sut
    m = act.model
    try:
        if act.kind == "DH":
            ind, outd = obj.nodes.in_degree.aslist(), obj.nodes.out_degree.aslist()
            hs, ts = obj.edges.head_size.aslist(), obj.edges.tail_size.aslist()
            if sum(ind) != sum(hs) or sum(outd) != sum(ts):
                w.find({"C06"}, "degree_sum_ne_size_sum", dict(rec, op="sum_rule"), act.kind,
                       f"in {sum(ind)} vs head {sum(hs)}; out {sum(outd)} vs tail {sum(ts)}")
        else:
            d, s = obj.nodes.degree.aslist(), obj.edges.size.aslist()
            o = obj.edges.order.aslist()
            if sum(d) != sum(s) or any(a - 1 != b for a, b in zip(s, o)):
                w.find({"C06"}, "degree_sum_ne_size_sum", dict(rec, op="sum_rule"), act.kind,
                       f"sum degree {sum(d)} vs sum size {sum(s)}; order {o!r}")
    except Exception as ex:  # noqa
        w.find({"C06"}, "stat_raised", dict(rec, op="sum_rule"), act.kind, f"{type(ex).__name__}: {ex}")


def fam_isolates_empty(sim, w, rec, act, r):
    m = act.model
    obj = act.sut
    try:
        iso = list(obj.nodes.isolates())
        exp = [n for n in m.nodes if not m_memberships(m, n)]
        if iso != exp:
            w.find({"C06"}, "isolates_wrong", dict(rec, op="isolates"), act.kind, f"{iso!r} vs {exp!r}")
        emp = list(obj.edges.empty())
        exp = [e for e in m.edges if not m.all_members(e)]
        if emp != exp:
            w.find({"C06"}, "empty_wrong", dict(rec, op="empty"), act.kind, f"{emp!r} vs {exp!r}")
        if act.kind != "DH":
            sing = list(obj.edges.singletons())
            exp = [e for e in m.edges if len(m.edges[e]) == 1]
            if sing != exp:
                w.find({"C06"}, "singletons_wrong", dict(rec, op="singletons"), act.kind, f"{sing!r} vs {exp!r}")
            iso2 = list(obj.nodes.isolates(ignore_singletons=True))
            exp = [n for n in m.nodes if not any(len(m.edges[e]) > 1 for e in m_memberships(m, n))]
            if iso2 != exp:
                w.find({"C06"}, "isolates_wrong", dict(rec, op="isolates(ignore_singletons)"), act.kind,
                       f"{iso2!r} vs {exp!r}")
    except Exception as ex:  # noqa
        w.find({"C06"}, "stat_raised", dict(rec, op="isolates_empty"), act.kind, f"{type(ex).__name__}: {ex}")


def fam_neighbors(sim, w, rec, act, r):
    m = act.model
    obj = act.sut
    try:
        for n in list(m.nodes)[:5]:
            s = r.choice([1, 1, 2, 2, 3])
            q = fresh(n)  # equal to the stored label, not the same object
            got = obj.nodes.neighbors(q, s) if s != 1 else obj.nodes.neighbors(q)
            mine = set(m_memberships(m, n))
            exp = {x for x in m.nodes if x != n and len(mine & set(m_memberships(m, x))) >= s}
            if set(got) != exp:
                w.find({"C06"}, "neighbors_wrong", dict(rec, op="nodes.neighbors"), act.kind,
                       f"neighbors({n!r}, s={s}) = {csort(got)!r}, expected {csort(exp)!r}")
                return
        for e in list(m.edges)[:5]:
            s = r.choice([1, 1, 2, 2, 3])
            q = fresh(e)
            got = obj.edges.neighbors(q, s) if s != 1 else obj.edges.neighbors(q)
            exp = {f for f in m.edges if f != e and len(set(m.edges[e]) & set(m.edges[f])) >= s}
            if set(got) != exp:
                w.find({"C06"}, "neighbors_wrong", dict(rec, op="edges.neighbors"), act.kind,
                       f"edge neighbors({e!r}, s={s}) = {csort(got)!r}, expected {csort(exp)!r}")
                return
    except Exception as ex:  # noqa
        w.find({"C06"}, "stat_raised", dict(rec, op="neighbors"), act.kind, f"{type(ex).__name__}: {ex}")


def fam_lookup(sim, w, rec, act, r):
    m = act.model
    obj = act.sut
    try:
        if m.edges:
            e = r.choice(list(m.edges))
            target = set(m.edges[e])
            if r.random() < 0.3 and target:
                target = set(list(csort(target))[:-1])
            shape = r.choice([list, tuple, set, iter, (lambda c: (x for x in c))])
            got = list(obj.edges.lookup(shape([fresh(x) for x in target])))
            exp = [f for f in m.edges if set(m.edges[f]) == target]
            if got != exp:
                w.find({"C06"}, "lookup_wrong", dict(rec, op="edges.lookup"), act.kind,
                       f"lookup({csort(target)!r}) = {got!r}, expected {exp!r}")
        if m.nodes:
            n = r.choice(list(m.nodes))
            target = set(m_memberships(m, n))
            got = list(obj.nodes.lookup(shape([fresh(x) for x in target]) if m.edges else list(target)))
            exp = [x for x in m.nodes if set(m_memberships(m, x)) == target]
            if got != exp:
                w.find({"C06"}, "lookup_wrong", dict(rec, op="nodes.lookup"), act.kind,
                       f"nodes.lookup({csort(target)!r}) = {got!r}, expected {exp!r}")
    except Exception as ex:  # noqa
        w.find({"C06"}, "stat_raised", dict(rec, op="lookup"), act.kind, f"{type(ex).__name__}: {ex}")


def fam_bunch(sim, w, rec, act, r):
    """view(bunch): exactly the IDs of the bunch, in view order; statistics restricted to it; the
    bunch in every container shape (one-shot iterators included)"""
    m = act.model
    obj = act.sut
    side = r.choice(["nodes", "edges"])
    ids = list(m.nodes) if side == "nodes" else list(m.edges)
    if not ids:
        return
    bunch = [i for i in ids if r.random() < 0.5]
    r.shuffle(bunch)
    shape = r.choice([list, tuple, set, iter, (lambda c: (x for x in c))])
    view = getattr(obj, side)
    try:
        try:
            arg = shape([fresh(x) for x in bunch])
        except TypeError:
            arg = [fresh(x) for x in bunch]
        sub = view(arg)
        got = list(sub)
        exp = [i for i in ids if i in bunch]
        if got != exp:
            w.find({"C06"}, "bunch_view_wrong", dict(rec, op="bunch"), act.kind,
                   f"{side}({bunch!r}) lists {got!r}, expected {exp!r}")
            return
        if len(sub) != len(exp):
            w.find({"C06"}, "bunch_view_wrong", dict(rec, op="bunch"), act.kind, f"len {len(sub)} != {len(exp)}")
            return
        name = "degree" if side == "nodes" else ("size" if act.kind != "DH" else "size")
        full = getattr(view, name).asdict()
        part = getattr(sub, name).asdict()
        if list(part.items()) != [(i, full[i]) for i in exp]:
            w.find({"C06"}, "bunch_stat_wrong", dict(rec, op="bunch"), act.kind,
                   f"{side}({bunch!r}).{name} = {part!r}, full view gives {full!r}")
    except Exception as ex:  # noqa
        w.find({"C06"}, "stat_raised", dict(rec, op="bunch"), act.kind, f"{type(ex).__name__}: {ex}")


def fam_maximal(sim, w, rec, act, r):
    m = act.model
    obj = act.sut
    strict = r.random() < 0.5
    mem = {e: frozenset(m.edges[e]) for e in m.edges}
    if strict:
        exp = [e for e in m.edges if not any(f != e and mem[e] <= mem[f] for f in m.edges)]
    else:
        exp = [e for e in m.edges if not any(mem[e] < mem[f] for f in m.edges)]
    try:
        got = list(obj.edges.maximal(strict=strict))
        if got != exp:
            w.find({"C06"}, "maximal_wrong", dict(rec, op="maximal"), act.kind,
                   f"maximal(strict={strict}) = {got!r}, expected {exp!r}")
    except Exception as ex:  # noqa
        has_empty = any(len(v) == 0 for v in mem.values())
        w.find({"C06"}, "maximal_raised_with_empty_edge" if has_empty else "stat_raised",
               dict(rec, op="maximal"), act.kind, f"maximal(strict={strict}): {type(ex).__name__}: {ex}")


def fam_duplicates(sim, w, rec, act, r):
    m = act.model
    obj = act.sut
    try:
        got = list(obj.edges.duplicates())
        classes = {}
        for e in m.edges:
            classes.setdefault(frozenset(m.edges[e]), []).append(e)
        ok = len(set(got)) == len(got)
        for members, ids in classes.items():
            inside = [e for e in got if e in ids]
            if len(inside) != len(ids) - 1:
                ok = False
        if not ok or any(e not in m.edges for e in got):
            w.find({"C06"}, "duplicates_wrong", dict(rec, op="edges.duplicates"), act.kind,
                   f"duplicates() = {got!r} for classes {[ids for ids in classes.values() if len(ids) > 1]!r}")
        order = [e for e in m.edges if e in set(got)]
        if ok and got != order:
            w.find({"C06"}, "duplicates_not_in_view_order", dict(rec, op="edges.duplicates"), act.kind,
                   f"{got!r} vs {order!r}")
        gotn = list(obj.nodes.duplicates())
        classes = {}
        for n in m.nodes:
            classes.setdefault(frozenset(m_memberships(m, n)), []).append(n)
        if any(len([x for x in gotn if x in ids]) != len(ids) - 1 for ids in classes.values()):
            w.find({"C06"}, "duplicates_wrong", dict(rec, op="nodes.duplicates"), act.kind, f"{gotn!r}")
    except Exception as ex:  # noqa
        w.find({"C06"}, "stat_raised", dict(rec, op="duplicates"), act.kind, f"{type(ex).__name__}: {ex}")


# ---------------------------------------------------------------------------
def do_hold(sim, rec):
    w = sim.world
    act = w.actors.get(rec["actor"])
    if act is None:
        return None
    spec = rec["spec"]
    specs = HOLD_SPECS_D if act.kind == "DH" else HOLD_SPECS_U
    if spec not in specs and ("multi" in spec or spec in ("nodes", "edges")):
        return rec["actor"]
    if act.kind != "DH" and any(x in spec for x in ("in_degree", "out_degree", "head_", "tail_")):
        return rec["actor"]
    try:
        with warnings.catch_warnings():
            warnings.simplefilter("ignore")
            if spec in ("nodes", "edges"):
                obj = getattr(act.sut, spec)
                # touch it once: a value cached at first access would be frozen now
                list(obj)
            elif "multi" in spec:
                side, rest = spec.split(".", 1)
                names = rest[6:-1].split(",")
                obj = getattr(act.sut, side).multi(names)
                obj.asdict()
                obj.aslist()
                obj.asdict(transpose=True)
            else:
                side, name, args, kwargs = parse_spec(spec)
                obj = sut_stat(act.sut, side, name, args, kwargs)
                obj.asdict()
    except Exception:
        return rec["actor"]
    sim.holds[(rec["actor"], rec["slot"])] = {"spec": spec, "obj": obj, "sut": act.sut, "at": act.muts}
    w.stats["op:hold"] += 1
    w.logev("hold", rec["uid"], rec["actor"], spec)
    return rec["actor"]


def check_holds(sim, w, rec, act):
    for (name, slot), h in list(sim.holds.items()):
        cur = w.actors.get(name)
        if cur is None or cur.sut is not h["sut"]:
            del sim.holds[(name, slot)]
            continue
        if name != act.name:
            continue
        age = cur.muts - h["at"]
        if age > 5:
            w.probes["held_object_older_than_5_mutations"] += 1
        spec = h["spec"]
        m = cur.model
        w.stats["held_reevaluations"] += 1
        try:
            if spec in ("nodes", "edges"):
                got = list(h["obj"])
                exp = list(m.nodes) if spec == "nodes" else list(m.edges)
                if got != exp or len(h["obj"]) != len(exp):
                    w.find({"C06"}, "held_view_stale", dict(rec, op="held:" + spec), cur.kind,
                           f"view captured {age} mutations ago lists {got!r}, network has {exp!r}")
            elif "multi" in spec:
                side, rest = spec.split(".", 1)
                names = rest[6:-1].split(",")
                first = names[0]
                exp = model_stat(m, side, first, [], {})
                ids = list(exp)
                mobj = h["obj"]
                d = mobj.asdict(transpose=True)
                key = [k for k in d if k.startswith(first)][0]
                outs = {
                    "asdict(transpose=True)": (list(d[key]), [d[key][i] for i in d[key]]),
                }
                d2 = mobj.asdict()
                outs["asdict()"] = (list(d2), [d2[i][key] for i in d2])
                d3 = mobj.asdict(inner=list)
                outs["asdict(inner=list)"] = (list(d3), [d3[i][0] for i in d3])
                outs["aslist()"] = (ids, [row[0] for row in mobj.aslist()])
                outs["aslist(inner=dict)"] = (ids, [row[key] for row in mobj.aslist(inner=dict)])
                outs["aslist(transpose=True)"] = (ids, list(mobj.aslist(transpose=True)[0]))
                if ids:
                    outs["asnumpy()"] = (ids, [r_[0] for r_ in mobj.asnumpy().tolist()])
                for how, (got_ids, got_vals) in outs.items():
                    if got_ids != ids or len(got_vals) != len(ids) or any(
                            not eqv(v, exp[i]) for v, i in zip(got_vals, ids)):
                        w.find({"C06"}, "held_stat_stale", dict(rec, op="held:" + spec), cur.kind,
                               f"multi-stat captured {age} mutations ago: {how} gives ids {got_ids!r} values "
                               f"{got_vals!r}, expected {exp!r}")
                        break
            else:
                eval_spec(w, rec, cur, spec, h["obj"], held=True)
        except Exception as ex:  # noqa
            w.find({"C06"}, "held_object_raised", dict(rec, op="held:" + spec), cur.kind,
                   f"captured {age} mutations ago: {type(ex).__name__}: {ex}")
        if w.findings:
            return


def exec_extra(sim, rec):
    if rec["op"] == "twin":
        return common.do_twin(sim, rec)
    return do_hold(sim, rec)
