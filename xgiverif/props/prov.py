"""Provenance for the core worlds (C01, C02, C03, C05): "starting from any constructible
network".  Besides empty networks, actors are now and then obtained through the provenance
operations of the C04 world (twins, converter round trips, class-to-class constructions, file
round trips through the simulated store, derivations, seeded generators) and then live through
the same edit histories, faults and oracles as every other actor."""
from . import c04

EXTRA_OPS = c04.EXTRA_OPS
EXPECTED_PROBES = []


def configure(cfg, r, tier):
    cfg["p_prov"] = r.choice([0.0, 0.04, 0.08])
    cfg["json_attrs"] = False
    cfg["chunks"] = r.choice([None, (1, 16)])
    cfg["io_faults"] = False
    cfg["io_fault_rate"] = 0.0
    cfg["p_io"] = 1.0


def init(sim):
    c04.init(sim)


def finish(sim):
    c04.finish(sim)


def next_record(sim):
    if sim.cfg.get("p_prov", 0) <= 0:
        return None
    rec = c04.next_record(sim)
    if rec is None:
        return None
    want = sim.cfg.get("prov_kinds")
    if want and rec.get("op") in ("twin", "convert", "derive", "write"):
        src = sim.world.actors.get(rec.get("src") or rec.get("actor"))
        if src is not None and src.kind not in want:
            return None
    return rec


exec_extra = c04.exec_extra
