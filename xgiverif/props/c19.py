"""C19 -- derived networks satisfy their set-theoretic definitions.

In-place cleanup / relabelling / largest-component restriction are steps of the history (judged
by refinement in the engine *and* by the guarantee oracle below); their not-in-place variants,
subhypergraph, dual, <<, complement, cut_to_order, k_skeleton and from_max_simplices are derive
transitions: the result joins the world (frozen or not) and keeps being edited.
"""
import random
import warnings
from copy import deepcopy
from itertools import combinations

from .. import engine as E
from .. import models as M
from ..labels import canon, csort, dec, enc
from ..snap import integrity, snapshot
from . import common

EXTRA_OPS = {"derive", "subhypergraph", "twin"}
EXPECTED_PROBES = ["derive_from_state_with_empty_edge", "derive_from_frozen_source", "lcc_tie"]
HOWS = {
    "H": ["cleanup_np", "relabel_np", "lcc_np", "dual", "dual_dual", "lshift", "complement", "cut_to_order"],
    "SC": ["cleanup_np", "relabel_np", "lcc_np", "cut_to_order", "k_skeleton", "from_max_simplices"],
    "DH": ["cleanup_np", "relabel_np"],
}


def configure(cfg, r, tier):
    cfg["initial"] = [r.choice(["H", "H", "H", "SC", "DH"]) for _ in range(r.choice([1, 2]))]
    cfg["faults"] = False
    if r.random() < 0.3:
        cfg["profile"] = "wide"
    cfg["steps"] = r.randint(12, 40) if tier == "quick" else r.randint(25, 100)
    cfg["p_derive"] = r.choice([0.15, 0.25, 0.35])
    cfg["p_sub"] = 0.08
    for k in ("H", "SC", "DH"):
        t = cfg["ops"][k]
        for op in ("cleanup", "convert_labels_to_integers", "largest_connected_hypergraph"):
            if op in t or op in ("cleanup",):
                t[op] = 2.0
        t["freeze"] = 0.2
        t["set_net_attr"] = 3.0
    cfg["ops"]["DH"].pop("largest_connected_hypergraph", None)


def next_record(sim):
    g = sim.gen
    w = sim.world
    if not w.actors:
        return None
    x = g.r.random()
    if x < sim.cfg["p_sub"]:
        return common.gen_subhypergraph(sim, ("H", "SC"))
    if x < sim.cfg["p_sub"] + sim.cfg["p_derive"]:
        free = [f"A{i}" for i in range(4) if f"A{i}" not in w.actors]
        if not free:
            return {"uid": g.next_uid(), "op": "drop", "actor": g.r.choice(list(w.actors))}
        src = g.r.choice(list(w.actors))
        kind = w.actors[src].kind
        how = g.r.choice(HOWS[kind])
        rec = {"uid": g.next_uid(), "op": "derive", "src": src, "new": free[0], "how": how}
        m = w.actors[src].model
        if how == "cleanup_np":
            keys = {"H": ("isolates", "singletons", "multiedges", "connected", "relabel"),
                    "SC": ("isolates", "connected", "relabel"), "DH": ("isolates", "relabel")}[kind]
            rec["flags"] = {k: g.r.random() < 0.5 for k in keys}
        elif how == "relabel_np":
            rec["label_attribute"] = g.r.choice(["label", "old"])
        elif how == "lshift":
            hs = [n for n, a in w.actors.items() if a.kind == "H"]
            others = [n for n in hs if n != src]
            rec["other"] = g.r.choice(others) if others and g.r.random() < 0.8 else g.r.choice(hs)
        elif how in ("cut_to_order", "k_skeleton"):
            sizes = sorted({len(m.all_members(e)) for e in m.edges})
            rec["order"] = g.r.choice([s - 1 for s in sizes] + [0, 1, 2, 7]) if sizes else g.r.choice([0, 1])
        return rec
    return None


# ---------------------------------------------------------------------------
# model-side definitions: each returns a list of acceptable (model, exp) alternatives, or
# ("raise", kind) when the documented outcome is an exception
def d_cleanup(m, flags):
    out = []
    for alt in alternatives(m, "cleanup", flags):
        out.append(alt)
    return out


def alternatives(m, op, args):
    """run a model step with every combination of its internal choices"""
    res = []
    for mm, exp, rej, nofresh in E.run_model_alternatives(unfrozen(m), op, args, lambda: _counter_fresh()):
        res.append((mm, exp, rej))
    return res


def unfrozen(m):
    c = m.copy()
    c.frozen = False
    return c


def _counter_fresh():
    n = [0]

    def fresh(hint=None):
        n[0] += 1
        return ("__auto__", n[0])

    return fresh


def check_guarantees(w, rec, kind, flags, src_model, snap):
    """cleanup returns a network with exactly the requested guarantees, obtained only by
    deleting or merging what those guarantees exclude."""
    bad = []
    nodes, edges = snap["nodes"], snap["edges"]
    mem = {e: (set(snap["members"][e][0]) | set(snap["members"][e][1])) if kind == "DH" else set(snap["members"][e])
           for e in edges}
    if not flags.get("isolates", True):
        deg0 = [n for n in nodes if not any(n in mem[e] for e in edges)]
        if deg0:
            bad.append(("cleanup_left_isolated_nodes", repr(deg0)))
    if kind == "H":
        if not flags["singletons"] and any(len(mem[e]) == 1 for e in edges):
            bad.append(("cleanup_left_singletons", ""))
        if not flags["multiedges"]:
            seen = set()
            for e in edges:
                fs = frozenset(mem[e])
                if fs in seen:
                    bad.append(("cleanup_left_multiedges", repr(csort(fs))))
                    break
                seen.add(fs)
    if flags.get("connected") and nodes:
        comp = {nodes[0]}
        grow = True
        while grow:
            grow = False
            for e in edges:
                if mem[e] & comp and not mem[e] <= comp:
                    comp |= mem[e]
                    grow = True
        if comp != set(nodes):
            bad.append(("cleanup_not_connected", f"{csort(comp)!r} of {nodes!r}"))
    if flags.get("relabel"):
        if nodes != list(range(len(nodes))) or edges != list(range(len(edges))):
            bad.append(("cleanup_labels_not_sequential", f"nodes {nodes!r} edges {edges!r}"))
        else:
            # surviving things are original things (through the recorded old labels)
            for n in nodes:
                old = snap["nattr"][n].get("label")
                if old not in src_model.nodes:
                    bad.append(("cleanup_invented_node", repr(old)))
            for e in edges:
                old = snap["eattr"][e].get("label")
                if old not in src_model.edges:
                    bad.append(("cleanup_invented_edge", repr(old)))
                else:
                    back = {snap["nattr"][n].get("label") for n in mem[e]}
                    if back != src_model.all_members(old):
                        bad.append(("cleanup_changed_members", f"edge {old!r}: {csort(back)!r}"))
    else:
        for n in nodes:
            if n not in src_model.nodes:
                bad.append(("cleanup_invented_node", repr(n)))
        for e in edges:
            if e not in src_model.edges:
                bad.append(("cleanup_invented_edge", repr(e)))
            elif mem[e] != src_model.all_members(e):
                bad.append(("cleanup_changed_members", f"edge {e!r}"))
    for clause, detail in bad:
        w.find({"C19"}, clause, rec, kind, detail)
    return not bad


def do_derive(sim, rec):
    w = sim.world
    xgi = sim.xgi
    src = w.actors.get(rec["src"])
    if src is None:
        return None
    how = rec["how"]
    kind = src.kind
    if how not in HOWS[kind]:
        return None
    if getattr(src, "sc_dirty", False):
        return None
    m = src.model
    w.stats[f"op:derive.{how}.{kind}"] += 1
    if any(len(m.all_members(e)) == 0 for e in m.edges):
        w.probes["derive_from_state_with_empty_edge"] += 1
    if m.frozen:
        w.probes["derive_from_frozen_source"] += 1
    random.seed(rec["uid"])
    new_kind = kind
    alts = None       # list of (model, exp)
    expect_exc = None  # 'LIB' | 'ANY'
    order_free = False
    if how == "cleanup_np":
        call = lambda: src.sut.cleanup(in_place=False, **rec["flags"])
        res = alternatives(m, "cleanup", dict(rec["flags"]))
        alts = [(mm, exp) for mm, exp, rej in res if rej is None]
        if not alts:
            expect_exc = res[0][2].kind
    elif how == "relabel_np":
        la = rec["label_attribute"]
        call = lambda: xgi.convert_labels_to_integers(src.sut, la)
        res = alternatives(m, "convert_labels_to_integers", {"label_attribute": la})
        alts = [(mm, exp) for mm, exp, rej in res if rej is None]
    elif how == "lcc_np":
        call = lambda: xgi.largest_connected_hypergraph(src.sut)
        if not m.nodes:
            expect_exc = "ANY"
        else:
            comps = m.components()
            top = max(len(c) for c in comps)
            cands = [c for c in comps if len(c) == top]
            if len(cands) > 1:
                w.probes["lcc_tie"] += 1
            alts = []
            for c in cands:  # "a" component of maximum size: ties are not pinned
                mm = common.model_subhypergraph(m, list(c), None, True)
                mm.frozen = False
                alts.append((mm, None))
    elif how == "dual":
        call = lambda: src.sut.dual()
        alts = [(model_dual(m), M.Exp(nodes_order_free=True))]
    elif how == "dual_dual":
        call = lambda: src.sut.dual().dual()
        if any(not m.memberships(n) for n in m.nodes) or any(not m.edges[e] for e in m.edges):
            alts = [(model_dual(model_dual(m)), M.Exp(nodes_order_free=True, edges_order_free=True))]
        else:
            mm = unfrozen(m)  # involution on networks without isolated nodes / empty edges
            alts = [(mm, M.Exp(nodes_order_free=True, edges_order_free=True))]
    elif how == "lshift":
        other = w.actors.get(rec["other"])
        if other is None or other.kind != "H":
            return None
        call = lambda: src.sut << other.sut
        alts = [(model_lshift(m, other.model), None)]
    elif how == "complement":
        import math
        top = max([len(v) for v in m.edges.values()] or [0])
        if sum(math.comb(len(m.nodes), k) for k in range(1, top + 1)) > 4000:
            return None  # bound of the exploration: the complement enumerates all these node sets
        call = lambda: xgi.complement(src.sut)
        alts = [(model_complement(m), M.Exp(edges_order_free=True))]
        if not m.edges:
            alts = "adopt"  # "up to the maximum size" is undefined without edges
    elif how in ("cut_to_order", "k_skeleton"):
        k = rec["order"]
        call = (lambda: xgi.cut_to_order(src.sut, k)) if how == "cut_to_order" else (lambda: xgi.k_skeleton(src.sut, k))
        if not m.edges:
            alts = "adopt_or_raise"
        else:
            top = max(len(m.all_members(e)) for e in m.edges) - 1
            if k > top:
                expect_exc = "LIB"
            else:
                mm = unfrozen(m)
                for e in [e for e in mm.edges if len(mm.all_members(e)) - 1 > k]:
                    del mm.edges[e]
                    del mm.eattr[e]
                alts = [(mm, None)]
    elif how == "from_max_simplices":
        new_kind = "H"
        call = lambda: xgi.from_max_simplices(src.sut)
        mm = M.HModel()
        for n in m.nodes:
            mm.nodes[n] = {}
        i = 0
        for e in m.edges:
            if not any(m.edges[e] < m.edges[f] for f in m.edges):
                mm.edges[("__auto__", i)] = set(m.edges[e])
                mm.eattr[("__auto__", i)] = {}
                i += 1
        alts = [(mm, "ids_by_members")]
    new, exc, _ = common.quiet_call(call)
    w.logev("derive", rec["uid"], rec["src"], rec["new"], how, "ok" if exc is None else type(exc).__name__)
    fake = dict(rec, op="derive:" + how)
    if alts == "adopt_or_raise":
        if exc is not None:
            return None
        alts = "adopt"
    if expect_exc is not None:
        if exc is None:
            w.find({"C19"}, "accepted_invalid_call", fake, kind, f"{how} should have been rejected")
        elif expect_exc == "LIB" and not E.is_lib_exc(xgi, exc):
            w.find({"C19"}, "wrong_error_type", fake, kind, f"{type(exc).__name__}: {exc}")
        return None
    if exc is not None:
        w.find({"C19"}, "derive_failed", fake, kind, f"{how}: {type(exc).__name__}: {exc}")
        return None
    snap, anomalies = snapshot(new)
    bad = [(a[0], f"{a[1]!r} {a[2]}") for a in anomalies] + integrity(snap)
    for clause, detail in bad:
        w.find({"C19", E.INTEGRITY_PROP[new_kind]}, "born_" + clause, fake, new_kind, detail)
    if bad:
        return None
    if how == "cleanup_np":
        check_guarantees(w, fake, kind, rec["flags"], m, snap)
    chosen = None
    if alts == "adopt":
        chosen = M.model_from_snapshot(new_kind, snap)
        ok_nodes = set(snap["nodes"]) == set(m.nodes)
        if how == "complement" and not ok_nodes:
            w.find({"C19"}, "born_node_set", fake, kind, "complement must keep the node set")
    else:
        first_diffs = None
        for mm, exp in alts:
            if exp == "ids_by_members":
                mm2 = rename_auto_by_members(mm, snap)
                diffs = E.compare(snap, mm2, M.Exp(edges_order_free=False), check_order=True) if mm2 else [("edge_set", "maximal simplices differ")]
                mm = mm2 or mm
            else:
                mm = resolve_auto_ids(mm, snap)
                diffs = E.compare(snap, mm, exp, check_order=True)
            if not diffs:
                chosen = mm
                break
            if first_diffs is None:
                first_diffs = diffs
        if chosen is None:
            for clause, detail in first_diffs:
                w.find({"C19"}, "born_" + clause, fake, new_kind, f"{how}: {detail}")
            chosen = M.model_from_snapshot(new_kind, snap)
    frozen_child = False
    try:
        frozen_child = bool(new.is_frozen)
    except Exception:
        pass
    if frozen_child:
        w.find({"C19", "C18"}, "derived_network_frozen", fake, new_kind, f"{how} returned a frozen network")
    chosen.frozen = False
    act = common.add_actor(sim, rec["new"], new, chosen, how)
    if set(chosen.nodes) == set(snap["nodes"]) and set(chosen.edges) == set(snap["edges"]):
        E.adopt_order(chosen, snap)
    act.tainted = True
    src.tainted = True
    return rec["new"]


def resolve_auto_ids(mm, snap):
    """model edges keyed ('__auto__', k) take the SUT's automatic IDs, matched by members"""
    autos = [e for e in mm.edges if isinstance(e, tuple) and len(e) == 2 and e[0] == "__auto__"]
    if not autos:
        return mm
    out = mm.copy()
    known = set(e for e in mm.edges if e not in autos)
    free = [e for e in snap["edges"] if e not in known]
    used = set()
    new_edges, new_eattr = {}, {}
    for e in mm.edges:
        if e in autos:
            target = None
            for want_attrs in (True, False):  # prefer a candidate whose attributes match too
                for f in free:
                    if f in used:
                        continue
                    if E.eqm(snap["members"][f], mm.edges[e]) and (
                            not want_attrs or snap["eattr"][f] == mm.eattr[e]):
                        target = f
                        break
                if target is not None:
                    break
            if target is None:
                target = e
            used.add(target)
            new_edges[target] = mm.edges[e]
            new_eattr[target] = mm.eattr[e]
        else:
            new_edges[e] = mm.edges[e]
            new_eattr[e] = mm.eattr[e]
    out.edges, out.eattr = new_edges, new_eattr
    return out


def rename_auto_by_members(mm, snap):
    if len(snap["edges"]) != len(mm.edges):
        return None
    return resolve_auto_ids(mm, snap)


def model_dual(m):
    d = M.HModel()
    for n in m.nodes:
        d.edges[n] = set(m.memberships(n))
        d.eattr[n] = deepcopy(m.nodes[n])
    # nodes of the dual = edges of the source (implicitly created first, then the rest)
    for e in m.edges:
        d.nodes[e] = deepcopy(m.eattr[e])
    d.net = deepcopy(m.net)
    return d


def model_lshift(a, b):
    out = M.HModel()
    for src in (a, b):
        for n in src.nodes:
            out.nodes.setdefault(n, {})
            out.nodes[n].update(deepcopy(src.nodes[n]))
    i = 0
    for src in (a, b):
        for e in src.edges:
            # "relabels all the edge IDs": which fresh IDs is not pinned, the order is
            out.edges[("__auto__", i)] = set(src.edges[e])
            out.eattr[("__auto__", i)] = deepcopy(src.eattr[e])
            i += 1
    out.net = deepcopy(a.net)
    out.net.update(deepcopy(b.net))
    return out


def model_complement(m):
    out = M.HModel()
    for n in m.nodes:
        out.nodes[n] = {}
    if not m.edges:
        return out
    top = max(len(m.edges[e]) for e in m.edges)
    present = {frozenset(m.edges[e]) for e in m.edges}
    nodes = list(m.nodes)
    i = 0
    for k in range(1, top + 1):
        for sub in combinations(nodes, k):
            if frozenset(sub) not in present:
                out.edges[("__auto__", i)] = set(sub)
                out.eattr[("__auto__", i)] = {}
                i += 1
    return out


def exec_extra(sim, rec):
    if rec["op"] == "twin":
        return common.do_twin(sim, rec)
    if rec["op"] == "subhypergraph":
        return common.do_subhypergraph(sim, rec, {"C19"})
    return do_derive(sim, rec)


def after_step(sim, rec):
    """in-place cleanup as a step of the history: the guarantee oracle on the post-state"""
    if rec.get("op") != "cleanup" or "args" not in rec:
        return
    w = sim.world
    act = w.actors.get(rec.get("actor"))
    if act is None or w.findings or act.model.frozen or getattr(w, "last_exc", None) is not None:
        return
    pre = getattr(sim, "_c19_pre", {}).get(act.name)
    if pre is None:
        return
    flags = {k: dec(v) for k, v in rec["args"].items()}
    if not hasattr(act, "snap") or act.snap is None:
        return
    if not pre.nodes and flags.get("connected"):
        return
    check_guarantees(w, rec, act.kind, flags, pre, act.snap)


def before_step(sim, rec):
    if rec.get("op") == "cleanup":
        act = sim.world.actors.get(rec.get("actor"))
        if act is not None:
            sim._c19_pre = {act.name: act.model.copy()}
