"""Derive / auxiliary operations shared by several property configurations."""

import pickle
import warnings
from copy import deepcopy

from .. import engine as E
from .. import models as M
from ..labels import canon, csort, dec, enc
from ..snap import integrity, snapshot


def quiet_call(fn, *a, **k):
    """call under a local warnings filter; returns (result, exception, warnings)"""
    with warnings.catch_warnings(record=True) as wl:
        warnings.simplefilter("always")
        try:
            return fn(*a, **k), None, wl
        except Exception as ex:  # noqa
            return None, ex, wl


def add_actor(sim, name, sut, model, lineage):
    act = E.Actor(name, sut, model, lineage)
    act.snap, _ = snapshot(sut)
    sim.world.actors[name] = act
    return act


def birth_check(sim, rec, act, props, check_order=False, exp=None):
    """snapshot(new object) must equal the model-side definition."""
    w = sim.world
    snap, anomalies = snapshot(act.sut)
    bad = [(a[0], f"{a[1]!r} {a[2]}") for a in anomalies] + integrity(snap)
    for clause, detail in bad:
        w.find(props | {E.INTEGRITY_PROP[act.kind]}, "born_" + clause, rec, act.kind, detail)
    diffs = E.compare(snap, act.model, exp, check_order=check_order)
    for clause, detail in diffs:
        w.find(props, "born_" + clause, rec, act.kind, detail)
    if not bad and not diffs:
        E.adopt_order(act.model, snap)
    elif not bad:
        act.model = M.model_from_snapshot(act.kind, snap, frozen=act.model.frozen)
    act.snap = snap
    w.note_state(act)
    return not bad and not diffs


# ---------------------------------------------------------------------------
def do_twin(sim, rec):
    w = sim.world
    src = w.actors.get(rec["src"])
    if src is None:
        w.stats["skipped_step_no_actor"] += 1
        return None
    how = rec["how"]
    w.stats["op:twin." + how + "." + src.kind] += 1
    if how == "copy":
        new, exc, _ = quiet_call(src.sut.copy)
    elif how == "pickle":
        new, exc, _ = quiet_call(lambda: pickle.loads(pickle.dumps(src.sut)))
    else:
        new, exc, _ = quiet_call(lambda: type(src.sut)(src.sut))
    w.logev("twin", rec["uid"], rec["src"], rec["new"], how, "ok" if exc is None else type(exc).__name__)
    if exc is not None:
        tuple_ids = [e for e in src.model.edges if isinstance(e, tuple)]
        clause = f"twin_failed_{how}" + ("_with_tuple_edge_id" if tuple_ids else "")
        w.find({"C07"}, clause, rec, src.kind,
               f"{how}: {type(exc).__name__}: {exc}" + (f" (edge IDs {tuple_ids!r})" if tuple_ids else ""))
        return None
    model = src.model.copy()
    was_frozen = model.frozen
    model.frozen = False
    act = add_actor(sim, rec["new"], new, model, how)
    act.twin_of = src.name
    src.has_twin = True
    act.has_twin = True
    if how == "ctor":
        act.tainted = True
        src.tainted = True
    if was_frozen:
        w.probes["twin_of_frozen:" + how] += 1
    if getattr(src, "sc_dirty", False) or (src.kind == "SC" and not src.model.is_closed()):
        # the source is a complex whose closure was interrupted by a raising call (or that an
        # inherited Hypergraph mutator left unclosed): a rebuild re-closes it; the twin is adopted
        act.model = M.model_from_snapshot(act.kind, act.snap)
        # copy() and the constructor rebuild (and thereby re-close) the complex; a pickle round
        # trip reproduces it as it is, incomplete closure included
        act.sc_dirty = how == "pickle"
        return rec["new"]
    birth_check(sim, rec, act, {"C07"} | ({"C18"} if was_frozen else set()))
    if rec.get("uid_after") == "auto":
        w.probes["auto_add_right_after_" + how] += 1
    return rec["new"]


def gen_twin(sim, hows=("copy", "pickle", "ctor")):
    g = sim.gen
    w = sim.world
    names = list(w.actors)
    if not names:
        return None
    src = g.r.choice(names)
    free = [f"A{i}" for i in range(4) if f"A{i}" not in w.actors]
    if not free:
        victim = g.r.choice([n for n in names if n != src] or names)
        return {"uid": g.next_uid(), "op": "drop", "actor": victim}
    return {"uid": g.next_uid(), "op": "twin", "src": src, "new": free[0], "how": g.r.choice(list(hows))}


# ---------------------------------------------------------------------------
def _nested_target(attrs, key):
    v = attrs.get(key)
    if isinstance(v, list):
        return v
    if isinstance(v, dict):
        inner = v.get("k")
        if isinstance(inner, list):
            return inner
    if isinstance(v, tuple) and v and isinstance(v[0], list):
        return v[0]
    if type(v).__name__ == "Box":
        return v.items
    return None


def do_nested_edit(sim, rec):
    """In-place change of a (possibly nested) attribute value, reached through the public views."""
    w = sim.world
    act = w.actors.get(rec["actor"])
    if act is None:
        return None
    where, ident, key, val = rec["where"], dec(rec["id"]), rec["key"], dec(rec["value"])
    try:
        if where == "node":
            sa, ma = act.sut.nodes[ident], act.model.nodes.get(ident)
        elif where == "edge":
            sa, ma = act.sut.edges[ident], act.model.eattr.get(ident)
        else:
            sa, ma = act.sut._net_attr, act.model.net
    except Exception:
        return rec["actor"]
    if ma is None:
        return rec["actor"]
    st, mt = _nested_target(sa, key), _nested_target(ma, key)
    if st is None or mt is None:
        return rec["actor"]
    st.append(val)
    mt.append(val)
    w.stats["op:nested_edit." + where] += 1
    w.probes["nested_attribute_edit_on_" + act.lineage] += 1
    w.logev("nested_edit", rec["uid"], rec["actor"], where, ident, key, val)
    snap, _ = snapshot(act.sut)
    for clause, detail in E.compare(snap, act.model, None, check_order=False):
        w.find({"C07"}, "nested_edit_" + clause, rec, act.kind, detail)
    act.snap = snap
    return rec["actor"]


def gen_nested_edit(sim):
    g = sim.gen
    w = sim.world
    cands = [n for n, a in w.actors.items() if not a.tainted and getattr(a, "has_twin", False)]
    if not cands:
        return None
    name = g.r.choice(cands)
    m = w.actors[name].model
    opts = []
    for n, a in m.nodes.items():
        for k in a:
            if _nested_target(a, k) is not None:
                opts.append(("node", n, k))
    for e, a in m.eattr.items():
        for k in a:
            if _nested_target(a, k) is not None:
                opts.append(("edge", e, k))
    for k in m.net:
        if _nested_target(m.net, k) is not None:
            opts.append(("net", None, k))
    if not opts:
        return None
    where, ident, key = g.r.choice(opts)
    return {"uid": g.next_uid(), "op": "nested_edit", "actor": name, "where": where, "id": enc(ident),
            "key": key, "value": enc(g.r.randint(10, 99))}


# ---------------------------------------------------------------------------
def model_subhypergraph(m, nodes, edges, keep_isolates):
    """Definition: nodes ∩ V; requested edges ∩ E lying inside the kept nodes, same IDs and
    attributes; isolated nodes dropped iff not keep_isolates; frozen."""
    out = type(m)()
    keep_n = set(m.nodes) if nodes is None else {n for n in nodes if M.hashable(n) and n in m.nodes}
    keep_e = set(m.edges) if edges is None else {e for e in edges if M.hashable(e) and e in m.edges}
    for n in m.nodes:
        if n in keep_n:
            out.nodes[n] = deepcopy(m.nodes[n])
    for e in m.edges:
        if e in keep_e and m.all_members(e) <= keep_n:
            out.edges[e] = m._copy_members(m.edges[e])
            out.eattr[e] = deepcopy(m.eattr[e])
    if not keep_isolates:
        for n in [n for n in out.nodes if not out.memberships(n)]:
            del out.nodes[n]
    out.net = deepcopy(m.net)
    out.frozen = True
    return out


def do_subhypergraph(sim, rec, props):
    w = sim.world
    xgi = sim.xgi
    src = w.actors.get(rec["src"])
    if src is None or src.kind == "DH":
        return None
    nodes = None if rec["nodes"] is None else dec(rec["nodes"])
    edges = None if rec["edges"] is None else dec(rec["edges"])
    keep = rec["keep_isolates"]
    w.stats["op:subhypergraph." + src.kind] += 1
    # the selections in every container shape (one-shot iterators included), chosen from the uid
    shapes = [list, tuple, iter, (lambda c: (x for x in c)), list, set]

    def shaped(sel, j):
        if sel is None:
            return None
        if j == 0 and rec.get("as_one") == "tuple":
            return tuple(sel)
        if j == 0 and rec.get("as_one") == "str":
            return "".join(sel)
        if j == 0 and len(sel) >= 2 and all(isinstance(x, str) and len(x) == 1 for x in sel) and rec["uid"] % 3 == 0:
            return "".join(sel)  # a string is an iterable of one-character labels
        try:
            return shapes[(rec["uid"] + j) % len(shapes)](sel)
        except TypeError:  # unhashable element in a set shape
            return list(sel)
    new, exc, _ = quiet_call(xgi.subhypergraph, src.sut, nodes=shaped(nodes, 0), edges=shaped(edges, 3),
                             keep_isolates=keep)
    w.logev("subhypergraph", rec["uid"], rec["src"], rec["new"], "ok" if exc is None else type(exc).__name__)
    if exc is not None:
        w.find(props, "subhypergraph_failed", rec, src.kind, f"{type(exc).__name__}: {exc}")
        return None
    model = model_subhypergraph(src.model, nodes, edges, keep)
    act = add_actor(sim, rec["new"], new, model, "subhypergraph")
    act.tainted = True
    src.tainted = True
    if getattr(src, "sc_dirty", False) or (src.kind == "SC" and not src.model.is_closed()):
        act.model = M.model_from_snapshot(act.kind, act.snap, frozen=True)
        return rec["new"]
    if src.kind == "SC" and (nodes is not None or edges is not None):
        # a sub-complex is rebuilt through add_simplices_from: IDs of re-added faces are adopted
        exp = M.Exp(edges_order_free=True)
    else:
        exp = None
    birth_check(sim, rec, act, props, exp=exp)
    return rec["new"]


def gen_subhypergraph(sim, kinds=("H",)):
    g = sim.gen
    w = sim.world
    cands = [n for n, a in w.actors.items() if a.kind in kinds]
    free = [f"A{i}" for i in range(4) if f"A{i}" not in w.actors]
    if not cands:
        return None
    if not free:
        victim = g.r.choice(list(w.actors))
        return {"uid": g.next_uid(), "op": "drop", "actor": victim}
    src = g.r.choice(cands)
    m = w.actors[src].model
    nodes = None
    edges = None
    if g.r.random() < 0.7:
        nodes = [n for n in m.nodes if g.r.random() < 0.7] + ([g.r.choice(g.node_u())] if g.r.random() < 0.3 else [])
    if g.r.random() < 0.5 and m.kind == "H":
        edges = [e for e in m.edges if g.r.random() < 0.7] + ([g.r.choice(g.edge_u())] if g.r.random() < 0.3 else [])
    rec = {"uid": g.next_uid(), "op": "subhypergraph", "src": src, "new": free[0],
           "nodes": None if nodes is None else enc(nodes), "edges": None if edges is None else enc(edges),
           "keep_isolates": g.r.random() < 0.6}
    # a selection that, taken as one object, is itself a node label: the tuple (0, 1) when (0, 1) is
    # a node, the string "ab" when "ab" is a node (a string selects its characters)
    comp = [n for n in m.nodes if (isinstance(n, tuple) and len(n) >= 1 and all(x in m.nodes for x in n)) or
            (isinstance(n, str) and len(n) >= 2 and all(ch in m.nodes for ch in n))]
    if comp and g.r.random() < 0.5:
        c = g.r.choice(comp)
        rec["nodes"] = enc(list(c))
        rec["as_one"] = "tuple" if isinstance(c, tuple) else "str"
    return rec


# ---------------------------------------------------------------------------
def gen_big_complex(sim, routes):
    g = sim.gen
    return {"uid": g.next_uid(), "op": "big_complex", "k": g.r.choice([9, 11, 11, 12, 13]), "route": g.r.choice(routes),
            "argseed": g.r.randrange(1 << 30)}


def do_big_complex(sim, rec, props):
    """a self-contained experiment outside the world of modelled actors: one closed simplex on k
    nodes (2**k - k - 1 simplices; size thresholds of the bulk paths), attributes on a few faces,
    sent through one route; every simplex must come back under its own ID with its attributes."""
    import pickle
    import random
    w = sim.world
    xgi = sim.xgi
    k, route = rec["k"], rec["route"]
    r = random.Random(rec["argseed"])
    with warnings.catch_warnings():
        warnings.simplefilter("ignore")
        S = xgi.SimplicialComplex()
        S.add_simplex(list(range(k)))
        ids = list(S.edges)
        marked = r.sample(ids, 6)
        S.set_edge_attributes({e: {"mark": i} for i, e in enumerate(marked)})
        S.set_node_attributes({0: {"first": True}})
        S["name"] = "big"
        w.stats["op:big_complex." + route] += 1
        fake = dict(rec, op="big_complex:" + route)
        try:
            if route == "hif_dict":
                R = xgi.from_hif_dict(xgi.to_hif_dict(S))
            elif route == "via_H":
                R = xgi.SimplicialComplex(xgi.Hypergraph(S))
            elif route == "copy":
                R = S.copy()
            elif route == "ctor":
                R = xgi.SimplicialComplex(S)
            else:
                R = pickle.loads(pickle.dumps(S))
        except Exception as ex:  # noqa
            w.find(props, "big_complex_route_failed", fake, "SC", f"k={k}: {type(ex).__name__}: {ex}")
            return None
        want = S.edges.members(dtype=dict)
        got = R.edges.members(dtype=dict)
        if got != want:
            bad = [e for e in want if got.get(e) != want[e]]
            w.find(props, "big_complex_ids_not_preserved", fake, "SC",
                   f"{route}, one closed simplex on {k} nodes: {len(bad)} of {len(want)} simplices do not come back "
                   f"under their own ID (e.g. {bad[:3]!r}); {len(got)} simplices in the result")
            return None
        for e in marked:
            if dict(R.edges[e]) != dict(S.edges[e]):
                w.find(props, "big_complex_attrs_not_preserved", fake, "SC",
                       f"{route}, k={k}: simplex {e!r}: {dict(R.edges[e])!r} != {dict(S.edges[e])!r}")
                return None
        if dict(R.nodes[0]) != {"first": True} or R._net_attr.get("name") != "big":
            w.find(props, "big_complex_attrs_not_preserved", fake, "SC", f"{route}, k={k}: node / network attributes")
    return None
