"""Stream seam: caller-supplied iterables that behave like readers over a socket or file."""


class OneShot:
    """A plain one-shot iterator (not a container): can be consumed exactly once."""

    def __init__(self, it):
        self._it = iter(it)

    def __iter__(self):
        return self

    def __next__(self):
        return next(self._it)


class StreamDied(OSError):
    pass


class Dying:
    """Yields the first k items of `it`, then raises OSError (the reader failed)."""

    def __init__(self, it, k):
        self._it = iter(it)
        self._left = k
        self.fired = False

    def __iter__(self):
        return self

    def __next__(self):
        if self._left <= 0:
            self.fired = True
            raise StreamDied(5, "injected: input stream failed")
        self._left -= 1
        return next(self._it)


CURRENT = {"sut": None}  # the network the running step is applied to (set by the engine)


class LiveSelf:
    """The network's *own* live view handed to one of its mutators (H.add_edge(H.nodes)): a
    sized, iterable collection that reads the view of the network under test each time it is
    traversed -- so a second traversal, or one that happens after the call has started to change
    the network, sees what the view shows then."""

    def __init__(self, which):
        self.which = which

    def _view(self):
        return getattr(CURRENT["sut"], self.which)

    def __iter__(self):
        return iter(self._view())

    def __len__(self):
        return len(self._view())

    def __contains__(self, x):
        return x in self._view()

    def __repr__(self):
        return f"<live view .{self.which} of the network itself>"


def container(values, mtype):
    """Build the members container of the requested python type."""
    if mtype in ("view_nodes", "view_edges"):
        return LiveSelf(mtype[5:])
    if mtype == "list":
        return list(values)
    if mtype == "tuple":
        return tuple(values)
    if mtype in ("set", "frozenset"):
        try:
            return set(values) if mtype == "set" else frozenset(values)
        except TypeError:  # a poisoned (unhashable) element cannot live in a set: use a list
            return list(values)
    if mtype == "iter":
        return OneShot(list(values))
    raise ValueError(mtype)
