"""Seeded scheduler: one integer decides the run configuration and every step.

All randomness comes from one private random.Random; model state is only ever iterated in
insertion order or through csort(), so a run is a pure function of (seed, hash seed, code).
"""

import random

from .labels import csort, enc

NODE_U = {
    "ints": [0, 1, 2, 3, 4, -2, -1, 1000],  # hash(-1) == hash(-2) in CPython; 1000 is not a cached small int
    "strs": ["a", "b", "c", "d", "e", "1", "2", "zz", "ab"],  # "ab": also what iterating the string "ab" is not
    "mixed": [0, 1, 2, 3, "a", "b", "1", 4.0],
    "wide": list(range(14)),  # more than ten nodes: two-digit positions
    "large": list(range(40)),  # size thresholds
}
EDGE_U = {
    "ints": [0, 1, 2, 3, 5, 8, -1, -2, 700],
    "strs": ["e0", "e1", "x", "0", "1", "7"],
    "mixed": [0, 1, "x", "1", 2.0, (0, 1), 5, 7, 9007199254740992.0],  # 2.0**53: x + 1 == x
    "wide": [0, 1, 2, 3, 5, 8, 11, 13, 21],
    "large": list(range(0, 120, 3)),
}
# int nodes with string edge IDs and the other way round; the string forms overlap ("1" / 1)
NODE_U["cross_is"], EDGE_U["cross_is"] = [0, 1, 2, 3, 4, 7], ["0", "1", "2", "e0", "x", "7"]
NODE_U["cross_si"], EDGE_U["cross_si"] = ["a", "b", "1", "2", "7", "zz"], [0, 1, 2, 3, 5, 7]
# int nodes (one beyond 2**53) with float edge IDs and the reverse: two numeric dtypes side by side
NODE_U["cross_if"], EDGE_U["cross_if"] = [0, 1, 2, 3, 2 ** 53 + 1, 7], [0.5, 1.5, 2.0, 3.25, 8.0, 0.25]
NODE_U["cross_fi"], EDGE_U["cross_fi"] = [0.5, 1.5, 2.0, 3.25, 8.0, 0.25], [0, 1, 2, 3, 2 ** 53 + 1, 7]
try:
    import numpy as _np

    NODE_U["npints"] = [_np.int64(x) for x in (0, 1, 2, 3, 4, 5)] + [6, 7]  # numpy and python ints mixed
    EDGE_U["npints"] = [_np.int64(x) for x in (0, 1, 2, 5, 8)] + [3, 10]
except Exception:  # pragma: no cover
    pass
ATTR_KEYS = ["color", "w", "label", "tag", "weight"]
ATTR_VALS = [0, 1, 2, "red", "blue", 0.5, None, True]
FW_VALS = [0.1, 0.2, 0.3, 0.3, 0.7, 1e12, 1e12 + 1]  # sums such as 0.1 + 0.2 are not exactly 0.3
POSITIONAL_OPS = {"add_edge", "add_simplex", "add_weighted_edges_from", "add_weighted_simplices_from",
                  "add_simplices_from", "remove_node", "remove_nodes_from", "cleanup"}
MTYPES = ["list", "list", "list", "tuple", "set", "frozenset"]


def _same(a, b):
    # (a numpy integer compared with a tuple label broadcasts to an array)
    try:
        return bool(a == b)
    except Exception:
        return False


BULK_OPS = {"add_edges_from", "add_simplices_from", "alias_add_edges_from", "add_weighted_edges_from",
            "add_weighted_simplices_from", "alias_add_weighted_edges_from"}


class Gen:
    def __init__(self, seed, cfg):
        self.r = random.Random(seed)
        self.cfg = cfg
        self.profile = cfg["profile"]
        self.uid = 0
        self.faults = cfg.get("faults", False)
        self.fault_rate = cfg.get("fault_rate", 0.0)
        self.enabled_faults = cfg.get("fault_kinds", [])

    # ---------------------------------------------------------- primitives
    def next_uid(self):
        self.uid += 1
        return self.uid

    def node_u(self):
        if self.cfg.get("unicode_labels") and self.profile == "strs":
            # multi-byte UTF-8 sequences, so that short reads / writes cut through characters
            return NODE_U["strs"] + ["é", "日本", "ñu", "ß1", "\ufeffb"]  # (the last one starts with U+FEFF)
        return NODE_U[self.profile] + self._dict_words()

    def edge_u(self):
        return EDGE_U[self.profile] + self._dict_words()

    def _dict_words(self):
        # strings that the library itself uses (cfg["dict_words"], see xgiverif/dictionary.py)
        return list(self.cfg.get("dict_words", [])) if self.profile in ("strs", "mixed") else []

    def pick_node(self, model, p_existing=0.75):
        if model.nodes and self.r.random() < p_existing:
            return self.r.choice(list(model.nodes))
        return self.r.choice(self.node_u())

    def pick_edge(self, model, p_existing=0.8):
        if model.edges and self.r.random() < p_existing:
            return self.r.choice(list(model.edges))
        return self.r.choice(self.edge_u())

    def new_idx(self, model, p_present=0.12, dh=False):
        """explicit ID: biased to the shapes C04 names (0, non-increasing, int-like floats,
        digit strings) and sometimes already present."""
        if model.edges and self.r.random() < p_present:
            x = self.r.choice(list(model.edges))
            if not (dh and isinstance(x, tuple)):
                return x
        if self.profile not in ("strs", "cross_is", "cross_if") and self.r.random() < 0.12:
            # an explicit ID just ahead of the largest integer ID: where the automatic counter is
            # about to arrive
            ints = [e for e in model.edges if type(e) is int]
            return (max(ints) if ints else 0) + self.r.randint(1, 4)
        # (tuple edge IDs are never sent through DiHypergraph bulk formats 2/4: the format
        # sniffing reads an iterable second element as a head -- documented ambiguity)
        u = [x for x in self.edge_u() if not (dh and isinstance(x, tuple))]
        return self.r.choice(u)

    def members(self, model, lo=1, hi=4, p_existing=0.6, tuples=False):
        if self.profile == "large" and hi == 4 and model.kind != "SC":
            hi = 9
        elif hi == 4 and self.cfg.get("max_members") and model.kind != "SC":
            hi = self.cfg["max_members"]
        k = self.r.randint(lo, hi)
        out = []
        for _ in range(k):
            n = self.pick_node(model, p_existing)
            if isinstance(n, tuple) and not tuples:
                # node labels that are tuples (they arise as nodes of a dual) are never sent
                # through the member lists of *bulk* calls: the formats read a leading tuple as a
                # members list
                n = self.r.choice([x for x in self.node_u() if not isinstance(x, tuple)])
            elif tuples and self.profile == "mixed" and self.r.random() < 0.15:
                # (single adds only) two labels of one type that cannot be ordered against each other
                n = self.r.choice([(0, 1), (0, "x")])
            if not any(_same(n, x) for x in out):
                out.append(n)
        return out

    def attr(self, p=0.35, single=False, as_dict=False):
        d = self._attr(p, single)
        if as_dict and d and self.r.random() < 0.15:
            # a dict handed over *as a dict* (never as **kwargs) may carry any key: one that is also
            # a parameter name of the mutators, or (where nothing goes through JSON) a non-string key
            keys = ["node", "self", "idx", "members", "edge", ""] + ([] if self.cfg.get("json_attrs") else [2020])
            keys += [w for w in self.cfg.get("dict_words", []) if w not in ("weight", "w")]
            d[self.r.choice(keys)] = self.r.choice([0, 1, 2])
        return d

    def _attr(self, p=0.35, single=False):
        # nested mutable values only where the dict belongs to exactly one node / edge: a
        # value passed as **attr of a bulk call is (legitimately) shared by all its edges
        nested = single and self.cfg.get("nested_attrs", False)
        if self.r.random() > p:
            return {}
        d = {}
        vals = [0, 1, 2, 3, 0.5] if self.cfg.get("numeric_attrs") else ATTR_VALS
        for _ in range(self.r.randint(1, 2)):
            k = self.r.choice(ATTR_KEYS)
            d[k] = self.r.choice(vals)
        if self.cfg.get("float_weight_key") and self.r.random() < 0.6:
            d["fw"] = self.r.choice(FW_VALS)
        if nested and self.r.random() < 0.5:
            shape = self.r.random()
            if shape < 0.6:
                d["tags"] = [self.r.randint(0, 3)]
            if 0.4 < shape < 0.8:
                d["meta"] = {"k": [self.r.randint(0, 3)]}
            if shape > 0.7:
                # a mutable object inside an immutable container
                d["span"] = ([self.r.randint(0, 3)], "closed")
            if self.r.random() < 0.3:
                # every value hashable, one of them mutable (a user-defined object with state)
                from .labels import Box
                d = {k: v for k, v in d.items() if k not in ("tags", "meta", "span")}
                d["trace"] = Box([self.r.randint(0, 3)])
        return d

    def mtype(self):
        if self.faults and "oneshot" in self.enabled_faults and self.r.random() < 0.25:
            return "iter"
        return self.r.choice(MTYPES)

    def stream(self):
        if self.faults and "oneshot" in self.enabled_faults and self.r.random() < 0.3:
            return "iter"
        return "list"

    def maybe_fault(self, kinds, n_items=1):
        if not self.faults or self.r.random() > self.fault_rate:
            return None
        kinds = [k for k in kinds if k in self.enabled_faults]
        if not kinds:
            return None
        k = self.r.choice(kinds)
        f = {"kind": k}
        if k in ("none_member", "unhashable_member", "empty_in_bulk", "none_node", "unhashable_node",
                 "attr_pairs", "attr_junk", "exotic_id"):
            f["item"] = self.r.randrange(max(1, n_items))
            f["pos"] = self.r.randrange(4)
        if k == "dying":
            f["after"] = self.r.randrange(max(1, n_items + 1))
        return f

    def rec(self, actor, op, args, fault=None):
        if "weight" in args and isinstance(args.get("attr"), dict):
            args["attr"].pop(args["weight"], None)  # would collide with the weight= parameter
            args["attr"].pop("weight", None)
        if fault is None and (args.get("mtype") == "iter" or args.get("stream") == "iter"):
            fault = {"kind": "oneshot"}
        if op in POSITIONAL_OPS and self.r.random() < 0.3:
            args["positional"] = True
        if op in BULK_OPS and isinstance(args.get("items"), list):
            # tuple node labels never travel through the member lists of bulk calls (the formats
            # read a leading tuple as a members list): whatever route put one there, take it out
            def clean(mem):
                if isinstance(mem, list) and any(isinstance(x, tuple) for x in mem):
                    return [x for x in mem if not isinstance(x, tuple)] or [0]
                return mem
            for it in args["items"]:
                if isinstance(it, list) and it:
                    if isinstance(it[0], list) and len(it[0]) == 2 and all(isinstance(p, list) for p in it[0]):
                        it[0] = [clean(it[0][0]), clean(it[0][1])]  # directed: [tail, head]
                    else:
                        it[0] = clean(it[0])
        r = {"uid": self.next_uid(), "actor": actor, "op": op,
             "args": {k: enc(v) for k, v in args.items()}}
        if fault:
            r["fault"] = fault
        return r

    # ---------------------------------------------------------- step choice
    def weighted(self, table):
        ops = list(table)
        tot = sum(table[o] for o in ops)
        x = self.r.random() * tot
        for o in ops:
            x -= table[o]
            if x <= 0:
                return o
        return ops[-1]

    def mutation(self, name, actor):
        m = actor.model
        table = self.cfg["ops"][m.kind]
        op = self.weighted(table)
        return getattr(self, "g_" + m.kind + "_" + op, None) or getattr(self, "g_" + op)

    def gen_mutation(self, name, actor):
        m = actor.model
        if m.kind == "SC" and getattr(actor, "last_raised", False) and not m.frozen and self.r.random() < 0.35:
            # right after a call that raised half-way: a simplex with new faces and automatic IDs
            # (the ID bookkeeping of the interrupted call is what the next automatic IDs meet)
            mem = self.members(m, 3, 4, 0.4)
            if len(mem) >= 3:
                return self.rec(name, "add_simplex", {"members": mem, "idx": None, "attr": {}, "mtype": "list"})
        table = self.cfg["ops"][m.kind]
        op = self.weighted(table)
        f = getattr(self, "g_" + m.kind + "_" + op, None) or getattr(self, "g_" + op, None) or \
            getattr(self, "g_H_" + op)  # a simplicial complex inherits the Hypergraph mutators
        return f(name, m, op)

    # ---------------------------------------------------------- shared ops
    def g_add_node(self, name, m, op):
        return self.rec(name, op, {"node": self.pick_node(m, 0.3), "attr": self.attr(single=True)})

    def g_add_nodes_from(self, name, m, op):
        items = []
        for _ in range(self.r.randint(0, 3)):
            n = self.pick_node(m, 0.3)
            items.append([n, self.attr(0.8, single=True, as_dict=True) if self.r.random() < 0.4 else None])
        fault = self.maybe_fault(["none_node", "unhashable_node", "dying"], len(items))
        return self.rec(name, op, {"items": items, "attr": self.attr(), "stream": self.stream()}, fault)

    def g_remove_node(self, name, m, op):
        a = {"n": self.pick_node(m, 0.85)}
        if m.kind != "SC":
            a["strong"] = self.r.random() < 0.4
            a["remove_empty"] = self.r.random() < 0.6
        return self.rec(name, op, a)

    def g_remove_nodes_from(self, name, m, op):
        nodes = [self.pick_node(m, 0.8) for _ in range(self.r.randint(0, 3))]
        a = {"nodes": nodes, "stream": self.stream()}
        if m.kind != "SC":
            a["strong"] = self.r.random() < 0.4
            a["remove_empty"] = self.r.random() < 0.6
        return self.rec(name, op, a, self.maybe_fault(["dying"], len(nodes)))

    def _attr_values(self, m, table_ids, pick):
        mode = self.r.randrange(4)
        ATTR_VALS = [0, 1, 2, 3, 0.5] if self.cfg.get("numeric_attrs") else globals()["ATTR_VALS"]
        if mode == 0:  # name + dict
            vals = {pick(): self.r.choice(ATTR_VALS) for _ in range(self.r.randint(1, 3))}
            return vals, self.r.choice(ATTR_KEYS)
        if mode == 1:  # name + scalar
            return self.r.choice(ATTR_VALS), self.r.choice(ATTR_KEYS)
        if mode == 2:  # dict of dicts
            vals = {pick(): self.attr(1.0, as_dict=True) for _ in range(self.r.randint(1, 3))}
            return vals, None
        if self.r.random() < 0.5:
            return self.r.choice([3, "x"]), None  # invalid: no name and not a dict
        vals = {pick(): self.attr(1.0, as_dict=True) for _ in range(self.r.randint(1, 2))}
        return vals, None

    def g_set_node_attributes(self, name, m, op):
        v, n = self._attr_values(m, m.nodes, lambda: self.pick_node(m, 0.85))
        return self.rec(name, op, {"values": v, "name": n})

    def g_set_edge_attributes(self, name, m, op):
        v, n = self._attr_values(m, m.edges, lambda: self.pick_edge(m, 0.85))
        return self.rec(name, op, {"values": v, "name": n})

    def g_set_net_attr(self, name, m, op):
        keys = ["name", "src", "k"]
        val = self.r.choice(ATTR_VALS)
        if self.cfg.get("nested_attrs"):
            # unusual but legal: a non-string key, a key that is also a constructor parameter,
            # nested mutable values
            keys = keys + [0, "incoming_data", "tags"]
            x = self.r.random()
            if x < 0.35:
                val = [self.r.randint(0, 3)]
            elif x < 0.55:
                val = {"k": [self.r.randint(0, 3)]}
            elif x < 0.65:
                val = ([self.r.randint(0, 3)], "closed")
        return self.rec(name, op, {"key": self.r.choice(keys), "value": val})

    def g_clear(self, name, m, op):
        return self.rec(name, op, {"remove_net_attr": self.r.random() < 0.5})

    def g_freeze(self, name, m, op):
        return self.rec(name, op, {})

    def g_convert_labels_to_integers(self, name, m, op):
        return self.rec(name, op, {"label_attribute": self.r.choice(["label", "label", "old"])})

    def g_largest_connected_hypergraph(self, name, m, op):
        return self.rec(name, op, {})

    # ---------------------------------------------------------- Hypergraph
    def g_H_add_edge(self, name, m, op):
        mem = self.members(m, 0 if self.r.random() < 0.04 else 1, 4, tuples=True)
        idx = self.new_idx(m) if self.r.random() < self.cfg.get("explicit_idx_rate", 0.45) else None
        if self.r.random() < 0.03 and self.profile != "large":
            # the members are the network's own live view (H.add_edge(H.nodes) / H.add_edge(H.edges))
            which = self.r.choice(["view_nodes", "view_edges"])
            ids = list(m.nodes) if which == "view_nodes" else list(m.edges)
            if ids and len(ids) <= 12 and not any(isinstance(x, tuple) for x in ids):
                return self.rec(name, op, {"members": ids, "idx": idx, "attr": self.attr(single=True), "mtype": which})
        fault = self.maybe_fault(["none_member", "unhashable_member", "exotic_id"])
        return self.rec(name, op, {"members": mem, "idx": idx, "attr": self.attr(single=True),
                                   "mtype": self.mtype()}, fault)

    def _bulk_items(self, m, fmt, dh=False, lo=1):
        n = self.r.randint(0 if self.r.random() < 0.08 else 1, 4)
        items = []
        used = []
        for _ in range(n):
            if dh:
                mem = [self.members(m, 0, 2), self.members(m, 0 if self.r.random() < 0.3 else 1, 2)]
            else:
                mem = self.members(m, lo, 4)
            idx = None
            if fmt in (2, 4, 5):
                idx = self.new_idx(m, dh=dh)
                if self.r.random() < 0.15 and used:
                    idx = self.r.choice(used)  # duplicate ID inside one bunch
                used.append(idx)
            a = self.attr(0.7, single=True, as_dict=True) if fmt in (3, 4) else None
            items.append([mem, idx, a])
        if fmt in (2, 4) and len(items) > 1 and self.r.random() < 0.4:
            # non-increasing explicit IDs inside one bulk call
            try:
                items.sort(key=lambda it: it[1], reverse=True)
            except Exception:
                pass
        return items

    def _shared(self, m, fmt, items, dh=False):
        """now and then a bunch built from one object: a copy of an item (under another ID) whose
        members container and attribute dict are the very same Python objects"""
        if not items or self.r.random() > 0.12:
            return False
        from copy import deepcopy
        k = self.r.randrange(len(items))
        if isinstance(items[k][2], dict):
            # (a nested mutable value in a dict that two items share is legitimately shared by the
            # two edges -- xgi copies attribute dicts shallowly; only plain values here)
            items[k][2] = {a: v for a, v in items[k][2].items() if isinstance(v, (int, float, str, bool, type(None)))}
        dup = deepcopy(items[k])
        if fmt in (2, 4, 5):
            dup[1] = self.new_idx(m, dh=dh)
        items.insert(k + 1, dup)
        if k == 0:  # (the first item's objects are inspected by the format sniffing and not shared)
            dup2 = deepcopy(dup)
            if fmt in (2, 4, 5):
                dup2[1] = self.new_idx(m, dh=dh)
            items.insert(k + 1, dup2)
        if dh and self.r.random() < 0.5:
            items[k + 1][0][1] = list(items[k + 1][0][0])  # head equal to the tail: one object for both
        return True

    def _junk_ahead(self, m, fmt, items, fault):
        """the item whose attribute payload will make the call raise is stored under an ID just
        ahead of the largest integer ID (the ID bookkeeping of that item is then cut short)"""
        if fault and fault["kind"] == "attr_junk" and fmt == 4 and len(items) >= 2 and self.r.random() < 0.5 \
                and self.profile not in ("strs", "cross_is", "cross_if"):
            i = 1 + fault.get("item", 0) % (len(items) - 1)
            ints = [e for e in m.edges if type(e) is int]
            items[i][1] = (max(ints) if ints else 0) + self.r.randint(1, 3)

    def g_H_add_edges_from(self, name, m, op):
        fmt = self.r.choice(self.cfg.get("bulk_fmts", [1, 1, 2, 3, 4, 5]))
        items = self._bulk_items(m, fmt)
        if self._shared(m, fmt, items):
            return self.rec(name, op, {"fmt": fmt, "items": items, "attr": self.attr(), "mtype": self.r.choice(["list", "set"]),
                                       "stream": "list", "share": True})
        if fmt != 5 and len(items) >= 2 and self.r.random() < 0.04 and self.profile != "large" and m.nodes:
            # one item (not the first) lists the network's own node view as its members: what the
            # view shows when that item is reached (the nodes of the earlier items included)
            j = self.r.randrange(1, len(items))
            which = "view_edges" if fmt in (2, 4) and m.edges and self.r.random() < 0.5 else "view_nodes"
            if which == "view_nodes":
                sofar = list(m.nodes)
                for it in items[:j]:
                    sofar += [x for x in it[0] if x not in sofar]
            else:
                sofar = list(m.edges) + [it[1] for it in items[:j]]  # the edge IDs, as node labels
            if len(sofar) <= 12 and not any(isinstance(x, tuple) for x in sofar) and \
                    not any(it[1] is not None and it[1] in m.edges for it in items) and \
                    len({repr(it[1]) for it in items if it[1] is not None}) == sum(it[1] is not None for it in items) and \
                    all(it[0] for it in items):
                items[j][0] = sofar
                return self.rec(name, op, {"fmt": fmt, "items": items, "attr": self.attr(), "mtype": "list",
                                           "stream": "list", "view_item": j, "view_which": which})
        fault = self.maybe_fault(["none_member", "unhashable_member", "dying", "empty_in_bulk", "attr_pairs",
                                  "attr_junk", "exotic_id"], len(items))
        self._junk_ahead(m, fmt, items, fault)
        return self.rec(name, op, {"fmt": fmt, "items": items, "attr": self.attr(), "mtype": self.mtype(),
                                   "stream": self.stream()}, fault)

    def g_H_add_weighted_edges_from(self, name, m, op):
        items = [[self.members(m, 1, 3), self.r.choice([0.5, 1, 2, 3.5])] for _ in range(self.r.randint(1, 3))]
        fault = self.maybe_fault(["none_member", "dying"], len(items))
        return self.rec(name, op, {"items": items, "weight": self.r.choice(["weight", "w"]),
                                   "attr": self.attr(), "stream": self.stream()}, fault)

    def g_H_add_node_to_edge(self, name, m, op):
        return self.rec(name, op, {"edge": self.pick_edge(m, self.cfg.get("p_existing_edge", 0.7)),
                                   "node": self.pick_node(m, 0.6)})

    def g_remove_edge(self, name, m, op):
        return self.rec(name, op, {"idx": self.pick_edge(m, 0.85)})

    def g_remove_edges_from(self, name, m, op):
        eb = [self.pick_edge(m, 0.85) for _ in range(self.r.randint(0, 3))]
        return self.rec(name, op, {"ebunch": eb, "stream": self.stream()}, self.maybe_fault(["dying"], len(eb)))

    def g_H_remove_node_from_edge(self, name, m, op):
        e = self.pick_edge(m, 0.9)
        if e in m.edges and m.edges[e] and self.r.random() < 0.8:
            n = self.r.choice(csort(m.edges[e]))
        else:
            n = self.pick_node(m)
        return self.rec(name, op, {"edge": e, "node": n, "remove_empty": self.r.random() < 0.6})

    def g_H_update(self, name, m, op):
        edges = [self.members(m, 1, 3) for _ in range(self.r.randint(0, 2))] if self.r.random() < 0.7 else None
        nodes = [self.pick_node(m, 0.3) for _ in range(self.r.randint(0, 2))] if self.r.random() < 0.6 else None
        return self.rec(name, op, {"edges": edges, "nodes": nodes})

    def g_H_clear_edges(self, name, m, op):
        return self.rec(name, op, {})

    def g_H_double_edge_swap(self, name, m, op):
        es = list(m.edges)
        if len(es) >= 2 and self.r.random() < 0.85:
            e1, e2 = self.r.sample(es, 2)
            c1 = csort(set(m.edges[e1]) - set(m.edges[e2])) or csort(m.edges[e1])
            c2 = csort(set(m.edges[e2]) - set(m.edges[e1])) or csort(m.edges[e2])
            n1 = self.r.choice(c1) if c1 else self.pick_node(m)
            n2 = self.r.choice(c2) if c2 else self.pick_node(m)
            if self.r.random() < 0.15:
                n1 = self.pick_node(m)
        else:
            e1, e2 = self.pick_edge(m), self.pick_edge(m)
            n1, n2 = self.pick_node(m), self.pick_node(m)
        return self.rec(name, op, {"n1": n1, "n2": n2, "e1": e1, "e2": e2})

    def g_H_random_edge_shuffle(self, name, m, op):
        es = list(m.edges)
        if len(es) >= 2 and self.r.random() < 0.6:
            e1, e2 = self.r.sample(es, 2)
        elif self.r.random() < 0.5:
            e1 = e2 = None
        else:
            e1, e2 = self.pick_edge(m), self.pick_edge(m)
        return self.rec(name, op, {"e1": e1, "e2": e2})

    def g_SC_random_edge_shuffle(self, name, m, op):
        """(inherited from Hypergraph; only generated in the C18 world) prefer a shuffle that breaks
        the closure: a simplex of three or more nodes with one that shares no node with it"""
        big = [e for e in m.edges if len(m.edges[e]) >= 3]
        if big and self.r.random() < 0.7:
            e1 = self.r.choice(big)
            others = [e for e in m.edges if e != e1 and not (m.edges[e] <= m.edges[e1])]
            if others:
                return self.rec(name, op, {"e1": e1, "e2": self.r.choice(others)})
        return self.g_H_random_edge_shuffle(name, m, op)

    def g_H_merge_duplicate_edges(self, name, m, op):
        rename = self.r.choice(["first", "first", "tuple", "new", "bogus"] if self.r.random() < 0.3
                               else ["first", "tuple", "new"])
        if self.profile == "npints" and rename == "tuple":
            rename = "first"  # numpy ints compared with tuple IDs broadcast: not a label mix worth modelling
        rule = self.r.choice(["first", "union", "intersection"] + (["bogus"] if self.r.random() < 0.1 else []))
        mult = self.r.choice([None, None, "mult", "weight", ""])  # "" is a legal (falsy) attribute name
        return self.rec(name, op, {"rename": rename, "merge_rule": rule, "multiplicity": mult})

    def g_H_cleanup(self, name, m, op):
        return self.rec(name, op, {k: self.r.random() < 0.5 for k in
                                   ("isolates", "singletons", "multiedges", "connected", "relabel")})

    def g_H_dup_edge(self, name, m, op):
        """add an edge with the same members as an existing one (feeds merge/duplicates)."""
        if m.edges:
            e = self.r.choice(list(m.edges))
            mem = csort(m.edges[e])
            if mem:
                return self.rec(name, "add_edge", {"members": mem, "idx": None, "attr": self.attr(0.6, single=True),
                                                   "mtype": "list"})
        return self.g_H_add_edge(name, m, "add_edge")

    def g_H_near_dup_edge(self, name, m, op):
        """an edge that differs from an existing one in exactly one member, preferably by a label
        with the same hash (feeds duplicates / lookup / maximal / merge)"""
        if m.edges:
            e = self.r.choice(list(m.edges))
            mem = csort(m.edges[e])
            if mem:
                k = self.r.randrange(len(mem))
                others = [x for x in self.node_u() if x not in mem]
                same_hash = [x for x in others if hash(x) == hash(mem[k])]
                if same_hash or others:
                    mem[k] = self.r.choice(same_hash or others)
                    return self.rec(name, "add_edge", {"members": mem, "idx": None, "attr": self.attr(0.4, single=True),
                                                       "mtype": "list"})
        return self.g_H_add_edge(name, m, "add_edge")

    # ---------------------------------------------------------- DiHypergraph
    def g_DH_add_edge(self, name, m, op):
        tail = self.members(m, 0, 3)
        head = self.members(m, 0 if self.r.random() < 0.3 else 1, 3)
        if tail and self.r.random() < 0.25:
            head.append(tail[0]) if tail[0] not in head else None  # node in both tail and head
        idx = self.new_idx(m, dh=False) if self.r.random() < self.cfg.get("explicit_idx_rate", 0.45) else None
        if self.r.random() < 0.03 and m.nodes and len(m.nodes) <= 12 and not any(isinstance(x, tuple) for x in m.nodes):
            # tail or head is the network's own live node view; the other side may bring a new node
            side = self.r.choice(["tail", "head"])
            other = [x for x in (head if side == "tail" else tail) if not isinstance(x, tuple)]
            args = {"tail": list(m.nodes) if side == "tail" else other, "head": list(m.nodes) if side == "head" else other,
                    "idx": idx, "attr": self.attr(single=True), "mtype": "list", "outer": "tuple", "view_side": side}
            return self.rec(name, op, args)
        fault = self.maybe_fault(["none_member", "unhashable_member", "exotic_id"])
        if fault:
            fault["item"] = self.r.randrange(2)
        return self.rec(name, op, {"tail": tail, "head": head, "idx": idx, "attr": self.attr(single=True),
                                   "mtype": self.mtype(), "outer": self.r.choice(["tuple", "list"])}, fault)

    def g_DH_add_edges_from(self, name, m, op):
        fmt = self.r.choice(self.cfg.get("bulk_fmts", [1, 1, 2, 3, 4, 5]))
        items = self._bulk_items(m, fmt, dh=True)
        if self._shared(m, fmt, items, dh=True):
            return self.rec(name, op, {"fmt": fmt, "items": items, "attr": self.attr(), "mtype": self.r.choice(["list", "set"]),
                                       "stream": "list", "share": True})
        fault = self.maybe_fault(["none_member", "unhashable_member", "dying", "attr_pairs", "attr_junk", "exotic_id"],
                                 len(items))
        return self.rec(name, op, {"fmt": fmt, "items": items, "attr": self.attr(), "mtype": self.mtype(),
                                   "stream": self.stream()}, fault)

    def g_DH_add_node_to_edge(self, name, m, op):
        d = self.r.choice(["in", "out", "in", "out", "sideways"]) if self.r.random() < 0.2 else self.r.choice(["in", "out"])
        return self.rec(name, op, {"edge": self.pick_edge(m, 0.7), "node": self.pick_node(m, 0.6), "direction": d})

    def g_DH_remove_node_from_edge(self, name, m, op):
        e = self.pick_edge(m, 0.9)
        d = self.r.choice(["in", "out"])
        n = None
        if e in m.edges:
            side = m.edges[e][0 if d == "in" else 1]
            if side and self.r.random() < 0.8:
                n = self.r.choice(csort(side))
        if n is None:
            n = self.pick_node(m)
        if self.r.random() < 0.05:
            d = "sideways"
        return self.rec(name, op, {"edge": e, "node": n, "direction": d, "remove_empty": self.r.random() < 0.6})

    def g_DH_cleanup(self, name, m, op):
        return self.rec(name, op, {"isolates": self.r.random() < 0.5, "relabel": self.r.random() < 0.5})

    # ---------------------------------------------------------- SimplicialComplex
    def _simplex(self, m, big=False, allow_empty=False):
        hi = 6 if big else 4
        if self.profile == "large" and self.r.random() < 0.3 and len(m.edges) < 1500:
            # a 10-node simplex has 1012 faces of two or more nodes.  (Only while the complex is
            # below 1500 simplices: the reference model and the closure oracle are quadratic and
            # worse in the number of simplices, and a long history must stay within the step budget)
            hi = 10
        lo = 0 if (allow_empty and self.r.random() < 0.04) else 1
        if hi == 10 and self.r.random() < 0.5:
            lo = 9  # (3**9 subface entries are replayed when such a complex is copied)
        mem = self.members(m, lo, hi, 0.5)
        if m.edges and self.r.random() < 0.2:
            mem = csort(self.r.choice(list(m.edges.values())))  # already-present simplex
        return mem

    def g_SC_add_simplex(self, name, m, op):
        idx = self.new_idx(m) if self.r.random() < self.cfg.get("explicit_idx_rate", 0.4) else None
        fault = self.maybe_fault(["none_member", "unhashable_member", "exotic_id"])
        return self.rec(name, op, {"members": self._simplex(m, allow_empty=True), "idx": idx,
                                   "attr": self.attr(single=True), "mtype": self.mtype()}, fault)

    def g_SC_alias_add_edge(self, name, m, op):
        return self.rec(name, op, {"members": self._simplex(m), "attr": self.attr(), "mtype": "list"})

    def _sc_items(self, m, fmt, big):
        items = []
        used = []
        for _ in range(self.r.randint(0 if self.r.random() < 0.08 else 1, 3)):
            mem = self._simplex(m, big)
            idx = None
            if fmt in (2, 4, 5):
                idx = self.new_idx(m)
                if self.r.random() < 0.15 and used:
                    idx = self.r.choice(used)
                used.append(idx)
            items.append([mem, idx, self.attr(0.7, single=True, as_dict=True) if fmt in (3, 4) else None])
        if items and len(items[-1][0]) >= 2 and self.r.random() < 0.25:
            # an overlapping simplex that lists two shared nodes in the opposite order
            prev = items[-1][0]
            a, b = self.r.sample(prev, 2)
            mem = [b, a] if prev.index(a) < prev.index(b) else [a, b]
            mem.append(self.pick_node(m, 0.3))
            mem = [x for i, x in enumerate(mem) if x not in mem[:i]]
            idx = self.new_idx(m) if fmt in (2, 4, 5) else None
            items.append([mem, idx, self.attr(0.7, single=True, as_dict=True) if fmt in (3, 4) else None])
        return items

    def g_SC_add_simplices_from(self, name, m, op):
        fmt = self.r.choice(self.cfg.get("bulk_fmts", [1, 1, 2, 3, 4, 5]))
        mo = self.r.choice([None, None, 1, 2, 3])
        items = self._sc_items(m, fmt, mo is not None)
        fault = self.maybe_fault(["none_member", "unhashable_member", "dying", "empty_in_bulk", "attr_pairs",
                                  "attr_junk", "exotic_id"], len(items))
        self._junk_ahead(m, fmt, items, fault)
        return self.rec(name, op, {"fmt": fmt, "items": items, "attr": self.attr(), "max_order": mo,
                                   "mtype": self.mtype(), "stream": self.stream()}, fault)

    def g_SC_alias_add_edges_from(self, name, m, op):
        fmt = self.r.choice(self.cfg.get("bulk_fmts", [1, 2, 3, 4, 5]))
        return self.rec(name, op, {"fmt": fmt, "items": self._sc_items(m, fmt, False), "attr": self.attr(),
                                   "mtype": "list", "stream": "list"})

    def g_SC_add_weighted_simplices_from(self, name, m, op):
        items = [[self.members(m, 1, 4, 0.5), self.r.choice([0.5, 1, 2])] for _ in range(self.r.randint(1, 3))]
        return self.rec(name, op, {"items": items, "weight": self.r.choice(["weight", "w"]), "attr": self.attr(),
                                   "max_order": self.r.choice([None, None, 1, 2]), "stream": self.stream()},
                        self.maybe_fault(["dying", "none_member"], len(items)))

    def g_SC_alias_add_weighted_edges_from(self, name, m, op):
        items = [[self.members(m, 1, 4, 0.5), self.r.choice([0.5, 1, 2])] for _ in range(self.r.randint(1, 3))]
        return self.rec(name, op, {"items": items, "weight": "weight", "attr": self.attr(),
                                   "max_order": self.r.choice([None, 1, 2]), "stream": "list"})

    def g_SC_remove_simplex_id(self, name, m, op):
        return self.rec(name, op, {"idx": self.pick_edge(m, 0.85)})

    def g_SC_alias_remove_edge(self, name, m, op):
        return self.rec(name, op, {"idx": self.pick_edge(m, 0.85)})

    def g_SC_remove_simplex_ids_from(self, name, m, op):
        eb = [self.pick_edge(m, 0.85) for _ in range(self.r.randint(0, 3))]
        return self.rec(name, op, {"ebunch": eb, "stream": self.stream()}, self.maybe_fault(["dying"], len(eb)))

    def g_SC_alias_remove_edges_from(self, name, m, op):
        eb = [self.pick_edge(m, 0.85) for _ in range(self.r.randint(0, 3))]
        return self.rec(name, op, {"ebunch": eb, "stream": "list"})

    def g_SC_close(self, name, m, op):
        return self.rec(name, op, {})

    def g_SC_cleanup(self, name, m, op):
        return self.rec(name, op, {k: self.r.random() < 0.5 for k in ("isolates", "connected", "relabel")})
