"""One simulated run: seed -> configuration -> steps -> verdict.  Also replay of a recorded
op list.  Nothing here reads a clock or the global PRNGs."""

import hashlib
import json
import os
import pickle
import sys
import warnings
from collections import Counter

from . import engine as E
from . import models as M
from .gen import Gen
from .labels import canon, dec, enc
from .snap import snapshot

KNOWN_PATH = os.path.join(os.path.dirname(os.path.dirname(os.path.abspath(__file__))), "known_findings.json")


class StepTimeout(Exception):
    """raised by the per-step watchdog inside whatever code is running (normally the SUT):
    a call that does not return within the budget is reported like a call that raised"""


STEP_BUDGET_S = float(os.environ.get("VERIF_STEP_BUDGET", "20"))


def _on_alarm(signum, frame):
    raise StepTimeout(f"step did not finish within {STEP_BUDGET_S:.0f} s of CPU time")


def install_watchdog():
    """per-step budget in *CPU* time (ITIMER_PROF), so a loaded machine cannot trip it"""
    import signal

    signal.signal(signal.SIGPROF, _on_alarm)


def import_xgi():
    src = os.environ.get("XGI_SRC", "/repo")
    if src not in sys.path:
        sys.path.insert(0, src)
    import xgi  # noqa
    try:  # no property anchors the download code: the network seam is closed
        import requests

        def _no_network(*a, **k):
            raise requests.ConnectionError("xgiverif: network access is not simulated")

        requests.get = _no_network
    except Exception:  # pragma: no cover
        pass

    got = os.path.dirname(os.path.dirname(os.path.abspath(xgi.__file__)))
    if os.path.realpath(got) != os.path.realpath(src):
        raise E.HarnessError(f"xgi imported from {got}, wanted {src}")
    return xgi


def load_known():
    try:
        with open(KNOWN_PATH) as f:
            return json.load(f)
    except FileNotFoundError:
        return {"known": [], "fixed": []}


def match_known(known, prop, finding):
    fp = finding.fingerprint()
    for k in known.get("known", []):
        if k["property"] != prop:
            continue
        pat = k["fingerprint"]
        if fp_match(pat, fp):
            return k
    return None


def fp_match(pat, fp):
    a, b = pat.split("|"), fp.split("|")
    if len(a) != len(b):
        return False
    return all(x == "*" or x == y for x, y in zip(a, b))


def run_seed(prop, verif_seed, index):
    h = hashlib.sha256(f"{verif_seed}/{prop}/{index}".encode()).digest()
    return int.from_bytes(h[:8], "big")


class Sim:
    def __init__(self, prop, cfg, seed=None, xgi=None):
        self.prop = prop
        self.cfg = cfg
        self.xgi = xgi or import_xgi()
        self.world = E.World(self.xgi, cfg)
        self.gen = Gen(seed, cfg) if seed is not None else None
        self.ops = []
        self.known = load_known()
        self.known_hits = []
        self.verdict = None
        self.violation = None
        self._hooks = None  # property specific module (props/*.py)

    @property
    def hooks(self):
        return self._hooks

    @hooks.setter
    def hooks(self, h):
        self._hooks = h
        if h is not None and hasattr(h, "init"):
            h.init(self)

    # ------------------------------------------------------------------
    def new_actor(self, name, kind, sut=None, model=None, lineage="empty"):
        xgi = self.xgi
        if sut is None:
            sut = {"H": xgi.Hypergraph, "DH": xgi.DiHypergraph, "SC": xgi.SimplicialComplex}[kind]()
        if model is None:
            model = M.MODEL_OF[kind]()
        act = E.Actor(name, sut, model, lineage)
        act.snap, _ = snapshot(sut)
        self.world.actors[name] = act
        return act

    def exec_step(self, rec):
        import signal

        armed = signal.getsignal(signal.SIGPROF) is _on_alarm
        if armed:
            signal.setitimer(signal.ITIMER_PROF, STEP_BUDGET_S)
        try:
            self._exec_step(rec)
        finally:
            if armed:
                signal.setitimer(signal.ITIMER_PROF, 0)

    def _exec_step(self, rec):
        w = self.world
        w.step_no += 1
        op = rec["op"]
        before = len(w.findings)
        target = None
        if self.hooks is not None and hasattr(self.hooks, "before_step"):
            self.hooks.before_step(self, rec)
        if op == "new":
            self.new_actor(rec["new"], rec["kind"])
            w.logev("new", rec["new"], rec["kind"])
            w.stats["op:new." + rec["kind"]] += 1
        elif op == "drop":
            w.actors.pop(rec["actor"], None)
            w.logev("drop", rec["actor"])
        elif self.hooks is not None and op in getattr(self.hooks, "EXTRA_OPS", ()):
            target = self.hooks.exec_extra(self, rec)
        else:
            act = w.actors.get(rec.get("actor"))
            if act is None:
                w.stats["skipped_step_no_actor"] += 1
                return
            target = act.name
            if act.kind == "SC" and op not in E.SC_OWN and not self.cfg.get("sc_foreign_ops", False):
                return
            E.exec_mutation(w, act, rec)
        E.check_all_actors(w, rec, skip=target)
        if self.hooks is not None and hasattr(self.hooks, "after_step"):
            self.hooks.after_step(self, rec)
        w._last_ops.append(op)
        if len(w._last_ops) >= 3:
            w.trigrams.add(tuple(w._last_ops[-3:]))
        self.judge(before)

    def judge(self, before):
        """Look at the findings produced by the last step."""
        w = self.world
        for f in w.findings[before:]:
            if self.prop in f.props:
                k = match_known(self.known, self.prop, f)
                if k is not None:
                    self.known_hits.append((k, f))
                    if self.verdict is None:
                        self.verdict = "known"
                else:
                    self.verdict = "violation"
                    self.violation = f
                    return
            else:
                if self.verdict is None:
                    self.verdict = "collateral"

    # ------------------------------------------------------------------
    def run_generated(self, steps):
        w = self.world
        g = self.gen
        cfg = self.cfg
        # initial actors
        for i, kind in enumerate(cfg["initial"]):
            rec = {"uid": g.next_uid(), "op": "new", "new": f"A{i}", "kind": kind}
            self.ops.append(rec)
            self.exec_step(rec)
        for _ in range(steps):
            if self.verdict is not None:
                break
            rec = self.next_record()
            if rec is None:
                continue
            self.ops.append(rec)
            self.exec_step(rec)
        if self.verdict is None and cfg.get("epilogue", True):
            self.epilogue()
        self.finish()
        return self.result()

    def finish(self):
        if self.hooks is not None and hasattr(self.hooks, "finish"):
            self.hooks.finish(self)

    def next_record(self):
        g = self.gen
        w = self.world
        if self.hooks is not None and hasattr(self.hooks, "next_record"):
            rec = self.hooks.next_record(self)
            if rec is not None:
                return rec
        names = list(w.actors)
        if not names:
            return None
        name = g.r.choice(names)
        return g.gen_mutation(name, w.actors[name])

    def run_replay(self, ops):
        for rec in ops:
            if self.verdict in ("violation",):
                break
            self.ops.append(rec)
            self.exec_step(rec)
            if self.verdict in ("known", "collateral"):
                # a replay keeps going only until the recorded violation; other endings stop too
                break
        self.finish()
        return self.result()

    def epilogue(self):
        """Bounded liveness of this code base: after the faults stop, ordinary operations on
        every actor succeed and match the model."""
        w = self.world
        g = self.gen
        for name, act in list(w.actors.items()):
            if act.model.frozen:
                continue
            k = act.kind
            recs = []
            mk = lambda op, args: {"uid": g.next_uid(), "actor": name, "op": op, "epilogue": True,
                                   "args": {a: enc(v) for a, v in args.items()}}
            recs.append(mk("add_node", {"node": 97, "attr": {}}))
            if k == "H":
                recs.append(mk("add_edge", {"members": [97, 98], "idx": None, "attr": {}, "mtype": "list"}))
                recs.append(mk("add_node_to_edge", {"edge": "ep", "node": 98}))
                recs.append(mk("remove_edge", {"idx": "ep"}))
                recs.append(mk("remove_node", {"n": 98, "strong": True, "remove_empty": True}))
            elif k == "DH":
                recs.append(mk("add_edge", {"tail": [97], "head": [98], "idx": None, "attr": {},
                                            "mtype": "list", "outer": "tuple"}))
                recs.append(mk("add_node_to_edge", {"edge": "ep", "node": 98, "direction": "in"}))
                recs.append(mk("remove_edge", {"idx": "ep"}))
                recs.append(mk("remove_node", {"n": 98, "strong": True, "remove_empty": True}))
            else:
                recs.append(mk("add_simplex", {"members": [97, 98], "idx": None, "attr": {}, "mtype": "list"}))
                recs.append(mk("remove_node", {"n": 98}))
            for rec in recs:
                if self.verdict is not None:
                    return
                self.ops.append(rec)
                self.exec_step(rec)

    def result(self):
        w = self.world
        return {
            "verdict": self.verdict or "ok",
            "digest": w.digest(),
            "steps": w.step_no,
            "stats": dict(w.stats),
            "probes": dict(w.probes),
            "states": sorted(w.states),
            "trigrams": sorted("/".join(t) for t in w.trigrams),
            "findings": [f.to_json() for f in w.findings],
            "violation": self.violation.to_json() if self.violation else None,
            "known": [{"what": k["what"], "fingerprint": f.fingerprint(), "detail": f.detail}
                      for k, f in self.known_hits],
            "extra": w.extra,
        }
