#!/bin/bash
# Run every registered quick command exactly as MANIFEST.json states it (evidence must come from these).
cd /verif
rc=0
for cmd in $(/venv/bin/python -c "
import json
for c in json.load(open('MANIFEST.json'))['checks']: print(c['quick_cmd'].replace(' ','~'))" 2>/dev/null); do
  c=${cmd//\~/ }
  echo "== $c"
  bash -c "$c" 2>&1 | grep -v conda | tail -4
  r=${PIPESTATUS[0]}
  [ "$r" != "0" ] && rc=1
done
exit $rc
