#!/venv/bin/python
"""Run the repository's pinned test suite and compare with /root/.vp/BASELINE.json.

Exit 0 iff every test in stable_pass passes.  Usage: baseline_check.py [-n WORKERS]
"""
import json, os, subprocess, sys, tempfile
import xml.etree.ElementTree as ET

def main():
    n = "0"
    if "-n" in sys.argv:
        n = sys.argv[sys.argv.index("-n") + 1]
    base = json.load(open("/root/.vp/BASELINE.json"))
    want = set(base["stable_pass"])
    fd, junit = tempfile.mkstemp(suffix=".xml", dir="/dev/shm")
    os.close(fd)
    cmd = ["/venv/bin/python", "-m", "pytest", "-q", "-p", "no:cacheprovider", "--timeout=900",
           "--continue-on-collection-errors", f"--junitxml={junit}"]
    if n != "0":
        cmd += ["-n", n]
    env = dict(os.environ)
    env.pop("XGI_VERIF", None)
    subprocess.run(cmd, cwd="/repo", env=env, stdout=subprocess.DEVNULL, stderr=subprocess.DEVNULL)
    passed = set()
    for tc in ET.parse(junit).getroot().iter("testcase"):
        if not any(ch.tag in ("failure", "error", "skipped") for ch in tc):
            passed.add(f"{tc.get('classname')}::{tc.get('name')}")
    os.unlink(junit)
    missing = sorted(want - passed)
    print(f"baseline: {len(want & passed)}/{len(want)} stable tests pass")
    for m in missing:
        print("  NOT PASSING:", m)
    sys.exit(1 if missing else 0)

main()
