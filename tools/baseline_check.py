#!/venv/bin/python
"""Run the repository's pinned test suite (guard off) and compare with /root/.vp/BASELINE.json.

Exit 0 iff every test in stable_pass passes.  Two drawing tests
(tests.drawing.test_draw::test_issue_515 and the xgi.drawing.draw doctest) were observed to be
flaky on the *unchanged* tree under load (they run matplotlib under warnings-as-errors), so the
suite is re-run up to two more times and a test counts as passing if it passed in any run.
Usage: baseline_check.py [-n WORKERS]
"""
import json, os, subprocess, sys, tempfile
import xml.etree.ElementTree as ET


def run_once(n):
    fd, junit = tempfile.mkstemp(suffix=".xml", dir="/dev/shm")
    os.close(fd)
    cmd = ["/venv/bin/python", "-m", "pytest", "-q", "-p", "no:cacheprovider", "--timeout=900",
           "--continue-on-collection-errors", f"--junitxml={junit}"]
    if n != "0":
        cmd += ["-n", n]
    env = dict(os.environ)
    env.pop("XGI_VERIF", None)
    subprocess.run(cmd, cwd=os.environ.get("REPO_DIR", "/repo"), env=env, stdout=subprocess.DEVNULL, stderr=subprocess.DEVNULL)
    passed = set()
    for tc in ET.parse(junit).getroot().iter("testcase"):
        if not any(ch.tag in ("failure", "error", "skipped") for ch in tc):
            passed.add(f"{tc.get('classname')}::{tc.get('name')}")
    os.unlink(junit)
    return passed


def main():
    n = "0"
    if "-n" in sys.argv:
        n = sys.argv[sys.argv.index("-n") + 1]
    want = set(json.load(open("/root/.vp/BASELINE.json"))["stable_pass"])
    passed = set()
    for attempt in range(3):
        passed |= run_once(n)
        missing = sorted(want - passed)
        print(f"baseline run {attempt + 1}: {len(want & passed)}/{len(want)} stable tests pass")
        if not missing:
            break
    for m in missing:
        print("  NOT PASSING:", m)
    sys.exit(1 if missing else 0)


main()
