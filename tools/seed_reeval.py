#!/venv/bin/python
"""Re-run checks against a stored seeded change (seeded/<name>/patch.diff) and update its meta.json.

usage: seed_reeval.py NAME PROP [PROP...]     (SEED_SCRATCH: scratch worktree path)
The patch is applied to a scratch git worktree of /repo's HEAD; the demo must still fail with it
and pass without it; each listed check's quick command is pointed at the worktree with XGI_SRC.
"""
import json, os, subprocess, sys

def sh(cmd):
    return subprocess.run(cmd, shell=True, capture_output=True, text=True)

def main():
    name, props = sys.argv[1], sys.argv[2:]
    out = f"/verif/seeded/{name}"
    meta = json.load(open(f"{out}/meta.json"))
    scratch = os.environ.get("SEED_SCRATCH", "/tmp/seedcheck_wt")
    sh(f"git -C /repo worktree remove --force {scratch}")
    r = sh(f"git -C /repo worktree add --detach {scratch} HEAD")
    assert r.returncode == 0, r.stderr
    try:
        r0 = sh(f"cd {scratch} && PYTHONPATH={scratch} /venv/bin/python {out}/demo.py")
        ap = sh(f"git -C {scratch} apply {out}/patch.diff")
        assert ap.returncode == 0, ap.stderr
        r1 = sh(f"cd {scratch} && PYTHONPATH={scratch} /venv/bin/python {out}/demo.py")
        assert r0.returncode == 0 and r1.returncode != 0, (r0.returncode, r1.returncode)
        caught = []
        lines = []
        for p in props:
            r = sh(f"cd /verif && XGI_SRC={scratch} timeout 900 ./check {p} --tier quick --no-evidence")
            vio = [l for l in r.stdout.splitlines() if l.startswith("VIOLATION")]
            detail = [l for l in r.stdout.splitlines() if l.strip().startswith("violation:")]
            first = detail[0].strip()[:300] if detail else r.stdout[-200:]
            lines.append(f"(re-run) ./check {p} --tier quick with patch applied -> exit {r.returncode} ({first})")
            if r.returncode == 1 and vio:
                caught.append(p)
            for l in vio:
                try: os.unlink(l.split("replay=", 1)[1].strip())
                except OSError: pass
            print("  ", p, r.returncode, first[:200])
    finally:
        sh(f"git -C /repo worktree remove --force {scratch}")
        sh("git -C /repo worktree prune")
    meta["what_i_ran"] = [l for l in meta["what_i_ran"] if not l.startswith("./check") and not l.startswith("(re-run)")] + lines
    meta["caught_by"] = caught
    json.dump(meta, open(f"{out}/meta.json", "w"), indent=1)
    print(json.dumps({"name": name, "caught_by": caught}))
main()
