#!/venv/bin/python
"""Take a seeded breaking change from a sub-agent's worktree, confirm it, store it under
/verif/seeded/<name>/ and run the checks against it.

usage: seed_eval.py NAME WORKTREE PROP [PROP...]   (PROPs: the checks to run against it)
Steps: (1) patch.diff = git diff of the worktree, demo + meta copied; (2) the demo must fail with
the patch and pass without it; (3) the patch is applied to /repo, the pinned test suite must
still pass, each listed check's quick command is run, /repo is restored; (4) result.json.
"""
import glob, json, os, shutil, subprocess, sys

def sh(cmd, **kw):
    return subprocess.run(cmd, shell=True, capture_output=True, text=True, **kw)

def main():
    name, wt = sys.argv[1], sys.argv[2]
    props = sys.argv[3:]
    out = f"/verif/seeded/{name}"
    os.makedirs(out, exist_ok=True)
    diff = sh(f"git -C {wt} diff -- xgi").stdout
    assert diff.strip(), "empty diff"
    open(f"{out}/patch.diff", "w").write(diff)
    demos = glob.glob(f"{wt}/demo_*.py")
    metas = glob.glob(f"{wt}/meta_*.json")
    assert demos, "no demo"
    shutil.copy(demos[0], f"{out}/demo.py")
    meta = json.load(open(metas[0])) if metas else {}
    res = {"name": name, "agent_meta": meta}
    assert sh("git -C /repo status --porcelain -- xgi tests").stdout.strip() == "", "/repo not clean"
    # a scratch worktree of /repo's HEAD (so that background runs that use /repo itself are not
    # disturbed); the checks are pointed at it through XGI_SRC
    scratch = os.environ.get("SEED_SCRATCH", "/tmp/seedcheck_wt")
    sh(f"git -C /repo worktree remove --force {scratch}")
    sh(f"git -C /repo worktree add --detach {scratch} HEAD")
    # demo without the patch
    r0 = sh(f"cd {scratch} && PYTHONPATH={scratch} /venv/bin/python {out}/demo.py")
    ap = sh(f"git -C {scratch} apply {out}/patch.diff")
    assert ap.returncode == 0, ap.stderr
    try:
        r1 = sh(f"cd {scratch} && PYTHONPATH={scratch} /venv/bin/python {out}/demo.py")
        res["demo_without_patch_exit"] = r0.returncode
        res["demo_with_patch_exit"] = r1.returncode
        res["demo_with_patch_tail"] = (r1.stdout + r1.stderr)[-400:]
        bt = sh(f"REPO_DIR={scratch} /verif/tools/baseline_check.py")
        res["baseline_with_patch"] = bt.stdout.strip().splitlines()[-1] if bt.stdout.strip() else bt.stderr[-200:]
        res["baseline_ok"] = bt.returncode == 0
        res["checks"] = {}
        for p in props:
            r = sh(f"cd /verif && XGI_SRC={scratch} timeout 900 ./check {p} --tier quick --no-evidence")
            vio = [l for l in r.stdout.splitlines() if l.startswith("VIOLATION")]
            detail = [l for l in r.stdout.splitlines() if l.strip().startswith("violation:")]
            res["checks"][p] = {"exit": r.returncode, "violations": len(vio), "first": (detail[0].strip()[:300] if detail else r.stdout[-200:])}
            for l in vio:
                try: os.unlink(l.split("replay=",1)[1].strip())
                except OSError: pass
    finally:
        sh(f"git -C /repo worktree remove --force {scratch}")
        sh("git -C /repo worktree prune")
    assert sh("git -C /repo status --porcelain -- xgi tests").stdout.strip() == ""
    res["caught_by"] = [p for p, v in res.get("checks", {}).items() if v["exit"] == 1 and v["violations"]]
    res["confirmed"] = bool(res["demo_without_patch_exit"] == 0 and res["demo_with_patch_exit"] != 0 and res["baseline_ok"])
    json.dump({"property": meta.get("property"), "breaks": meta.get("summary"), "needs": meta.get("needs"),
               "files": meta.get("files"), "origin": "independent sub-agent given only the property text and a scratch worktree",
               "what_i_ran": [f"demo.py on clean /repo -> exit {res['demo_without_patch_exit']}",
                              f"demo.py with patch.diff applied -> exit {res['demo_with_patch_exit']}",
                              f"tools/baseline_check.py with patch applied -> {res['baseline_with_patch']}",
                              "(s01-s43: patch applied to /repo itself and reverted; later seeds: applied to a scratch git worktree of /repo HEAD, checks pointed at it with XGI_SRC)"] +
                             [f"./check {p} --tier quick with patch applied -> exit {v['exit']} ({v['first']})" for p, v in res.get('checks', {}).items()],
               "confirmed": res["confirmed"], "caught_by": res["caught_by"]}, open(f"{out}/meta.json", "w"), indent=1)
    print(json.dumps({k: res[k] for k in ("name", "confirmed", "caught_by", "demo_without_patch_exit", "demo_with_patch_exit", "baseline_with_patch")}))
    for p, v in res.get("checks", {}).items():
        print("  ", p, v)
main()
