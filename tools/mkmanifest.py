#!/venv/bin/python
"""Regenerate /verif/MANIFEST.json from the table below (keeps it valid and in one place)."""
import json, subprocess

CHECKS = {
 "C01": ("seeded simulation of edit histories on Hypergraph objects with stream-fault injection; two-way incidence / attribute-record invariants after every step, whether the call returned or raised",
         "history-based: quantifies over all call sequences and over the state left by a raising call; sampled by seeded runs (swarm configurations, 4 hash seeds)"),
 "C02": ("seeded simulation of edit histories on DiHypergraph objects with stream-fault injection; tail/out and head/in invariants after every step + fault-free epilogue (progress after faults)",
         "as C01 for the directed class"),
 "C03": ("seeded simulation of SimplicialComplex's own mutators (five bulk formats, max_order, IDs, aliases) with stream faults; downward closure, duplicate-freeness, non-emptiness, has_simplex and refinement of the removal/max_order clauses after every step",
         "history-based; closure clauses are suspended for an actor after a call that raised half-way (DESIGN C03) and resume after close()/clear()"),
 "C04": ("seeded simulation over all three classes and every provenance as an operation of the world (empty, copy / pickle / constructor twins, every converter round trip and class-to-class construction, file round trips through the simulated store, relabelled / cleaned-up / largest-component derivations, seeded generators) followed by mixed explicit and automatic additions; every add-type step is judged: existing (id -> members, attrs) unchanged, new automatic IDs fresh, refused explicit IDs warn and change nothing",
         "provenance x history property; automatic IDs are adopted from the SUT, only freshness is demanded"),
 "C06": ("views and statistics recomputed through the public API after every step of a seeded edit history and compared with values derived from the reference model (degree/size with all arguments, directed variants, attrs, output formats and multi-stats, filterby in all modes, filterby_attr, neighbors, lookup, isolates, singletons, empty, maximal, duplicates); view and stat objects captured by hold steps are re-evaluated after every later mutation",
         "which of several equal-member edges duplicates() spares is not pinned (docstring and code disagree); DiHypergraph is left out of neighbors/lookup/duplicates/maximal, which the directed views do not implement"),
 "C07": ("twin derivations (copy / pickle round trip / same-class constructor) as operations of the simulated world; equality at birth against the source's model, then edits interleaved across source and twins by the seeded scheduler with every actor compared with its own model after every step; in-place edits of nested attribute values on copy() twins",
         "the interleaving of edits across live objects is the schedule; ctor twins share nested node-attribute values by design and receive no nested edits"),
 "C08": ("observers (every xgi callable whose first parameter is a network, enumerated by introspection, plus view/stat methods) interleaved with mutations; deep ordered snapshot incl. next automatic ID before/after each call, and a differential schedule: the same run with all reads elided must end in the same world",
         "arguments are synthesised from parameter names and the current state; callables that never returned normally are listed in the evidence (callable_coverage)"),
 "C09": ("replica pairs: a history-reached hypergraph and a replica of the same logical network whose construction operations are delivered in scheduler-permuted order (nodes, edges, members, API route) under node and edge bijections (other integers, non-identity permutation of 0..m-1, gapped, strings), repeated under four worker hash seeds; every measure named by the property is evaluated on both and compared through the bijection (matrices through their index maps)",
         "the relabelling half is a symmetry argument riding on the replica machinery (DESIGN C09 honest limit): the scheduler contributes permutations and history-reached states, not faults; simpliciality measures only on orderable labels; floats compared with rtol 1e-9"),
 "C10": ("converter round trips (hyperedge list/dict, bipartite edge list, incidence matrix with index maps, bipartite graph with scheduler-chosen vertex/edge insertion order, dataframe, standard dict incl. refusal of colliding casts, HIF dict) and class-to-class constructions as derive transitions on history-reached sources; birth state compared with the model's projection per representation; the result joins the world and keeps being edited",
         "apart from the construction-order schedule of the bipartite graph there is no fault or interleaving here (DESIGN C10 honest limit); representations are only fed networks inside their stated domain (homogeneous labels for bare lists and pandas, closed complexes for simplicial targets)"),
 "C11": ("durable-store simulation: write_F / read_F (hif, hif collection, json, json collection, edge list, bipartite edge list, incidence matrix) over a few shared paths on top of a simulated raw device under Python's real buffering/text layers: short reads and writes always on, ENOSPC/EIO after k bytes, failing open/close; acknowledged-write rule checked against the model's projection per format, read results join the world and keep being edited",
         "the raw device is the only stub (FileIO subclass); labels/values are generated inside each format's stated domain; after a failed write the path is indeterminate until the next acknowledged write"),
 "C16": ("generators run under the RNG seam: real MT19937 with scheduler seeds (via seed= and via a pre-set global state) and an adversarial mode with scripted random.random / numpy.random.random streams that steer skip sampling onto index 0, the last index and one past it and make Bernoulli draws hit p and 0.0 exactly; promise table per generator (node set, edge sizes, no repeats, p=0 / p=1, degrees, downward closure, flag = cliques); index decoders checked exhaustively as bijections for n <= 9, m <= 4",
         "the decoder clause is plain enumeration, not simulation; parameter grids are bounded (n <= 9, m <= 4); only random.random and numpy.random.random are scripted, sample/choice/shuffle stay real"),
 "C17": ("call - perturb - call experiments for every public callable with a seed parameter (introspected): between two calls with the same arguments and seed the scheduler interleaves 0-6 other RNG consumers (draws from and reseeds of random / numpy.random, the same function with another seed, other xgi generators, random_edge_shuffle, eigsh-based code); results must be exactly equal",
         "same interpreter process, BLAS pinned to one thread; arguments are re-created for the second call; callables without an argument recipe are listed as uncovered in the evidence"),
 "C18": ("freeze as an operation of the world plus subhypergraph results; every structural call that would change an unfrozen copy must raise XGIError and change nothing; the mutator surface is discovered by probing dir(class) and in_place functions on an unfrozen copy and replaying on the frozen network; is_frozen checked on every actor at every step; copies of frozen networks are unfrozen, equal and editable",
         "argument synthesis for probed methods is by parameter name; methods for which no changing arguments are found are reported in the evidence as uncovered"),
 "C19": ("derived networks as transitions of the simulated world: in-place cleanup / relabelling / largest-component restriction are steps of edit histories (exact refinement + an independent guarantee oracle), the not-in-place variants, subhypergraph, dual, dual-of-dual, <<, complement, cut_to_order, k_skeleton and from_max_simplices create new actors whose birth state must equal the model-side set-theoretic definition and which keep being edited",
         "no fault dimension (DESIGN C19 honest limit): the simulator contributes history-reached pre-states (empty edges, gapped IDs, frozen sources, mixed labels) and the downstream life of the result; ties between largest components are not pinned; complement of an edgeless network is adopted"),
 "C05": ("step-by-step refinement of three executable reference models (docstring transcriptions) over the full mutator alphabet, fault-free (strict) and fault-injecting (narrow relaxation) runs; swap/shuffle invariants; library error types",
         "the reference models are the trusted base; unspecified orders and automatic IDs are adopted"),
}
TECH = "deterministic simulation with fault injection: seeded op-and-fault sequences on a world of live xgi objects, checked against reference models; ddmin-minimised replay files"

def main():
    m = json.load(open("/verif/MANIFEST.json"))
    m["setup_cmd"] = "true"
    m["engines"] = [{"name": "xgiverif", "path": "/verif/xgiverif", "serves_properties": sorted(CHECKS),
                     "kind_free_text": "custom deterministic simulator (seeded scheduler, stream/file/RNG/hash-seed seams, reference models, ddmin, replay)"}]
    m["checks"] = []
    for pid, (text, note) in sorted(CHECKS.items()):
        m["checks"].append({
            "property_id": pid,
            "quick_cmd": f"timeout 900 ./check {pid} --tier quick",
            "thorough_cmd": f"timeout 7200 ./check {pid} --tier thorough",
            "evidence_file": f"/verif/evidence/{pid}.json",
            "replay_cmd_template": "./check --replay {path}",
            "engine": "xgiverif",
            "level_claimed": {"category": "exploration", "text": text, "design_ref": f"DESIGN.md section 5, {pid}"},
            "level_note": note,
            "technique": TECH,
        })
    claimed = set(CHECKS)
    na = [x for x in m.get("not_applicable", []) if x["property_id"] not in claimed]
    have = {x["property_id"] for x in na}
    for pid in [f"C{i:02d}" for i in range(1, 21)]:
        if pid not in claimed and pid not in have:
            na.append({"property_id": pid, "reason": "check not built yet in this session (planned in DESIGN.md); not claimed until its check exists and is quiet on the unchanged tree"})
    m["not_applicable"] = sorted(na, key=lambda x: x["property_id"])
    json.dump(m, open("/verif/MANIFEST.json", "w"), indent=1)
    import jsonschema
    jsonschema.validate(m, json.load(open("/root/.vp/MANIFEST.schema.json")))
    print("MANIFEST ok:", sorted(claimed))
main()
