#!/bin/bash
# every registered thorough command, once (no evidence written), printing the verdict lines
cd "$(dirname "$0")/.."
for p in $(/venv/bin/python -c "
import json
print(' '.join(c['property_id'] for c in json.load(open('MANIFEST.json'))['checks']))" 2>/dev/null); do
  s=$(date +%s)
  out=$(VERIF_SEED=${VERIF_SEED:-0} timeout 7200 ./check $p --tier thorough --no-evidence 2>&1 | grep -v conda)
  echo "$p: $(echo "$out" | grep -E '^\[' | tail -1) ($(( $(date +%s) - s )) s)"
  echo "$out" | grep -E "VIOLATION|HARNESS|violation:|KNOWN|finding of another property" | head -8
done
