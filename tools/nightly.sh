#!/bin/bash
# mutants self-test, then soak over 8 seeds, then every thorough check once
cd "$(dirname "$0")/.."
./check selftest mutants 2>&1 | grep -v conda | grep -v ": caught"
SEEDS="1 2 3 4 5 6 7 8" tools/soak.sh 2>&1 | grep -v "ok': [0-9]*}$"
tools/thorough_all.sh
