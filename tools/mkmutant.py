#!/venv/bin/python
"""Create /verif/mutants/<name>.patch + .json from string replacements on a scratch copy of /repo/xgi.

usage: mkmutant.py NAME PROPS(comma) "what it needs" FILE OLD NEW [FILE OLD NEW ...]
OLD/NEW are python string literals (use \\n).  OLD must occur exactly once unless prefixed by 'ALL:'.
"""
import json, os, shutil, subprocess, sys, tempfile

def main():
    name, props, needs = sys.argv[1:4]
    triples = sys.argv[4:]
    scratch = tempfile.mkdtemp(dir="/dev/shm", prefix="mkmut-")
    try:
        a = os.path.join(scratch, "a"); b = os.path.join(scratch, "b")
        shutil.copytree("/repo/xgi", os.path.join(a, "xgi"), ignore=shutil.ignore_patterns("__pycache__"))
        shutil.copytree("/repo/xgi", os.path.join(b, "xgi"), ignore=shutil.ignore_patterns("__pycache__"))
        for i in range(0, len(triples), 3):
            f, old, new = triples[i:i+3]
            old = old.encode().decode("unicode_escape"); new = new.encode().decode("unicode_escape")
            p = os.path.join(b, f)
            s = open(p).read()
            if old.startswith("ALL:"):
                old = old[4:]
                assert s.count(old) >= 1, (f, old)
            else:
                assert s.count(old) == 1, (f, old, s.count(old))
            open(p, "w").write(s.replace(old, new))
        r = subprocess.run(["diff", "-ruN", "a", "b"], cwd=scratch, capture_output=True, text=True)
        patch = r.stdout
        assert patch.strip(), "empty patch"
        # sanity: still importable
        subprocess.run(["/venv/bin/python", "-c", "import sys; sys.path.insert(0, %r); import xgi" % b], check=True)
        open(f"/verif/mutants/{name}.patch", "w").write(patch)
        json.dump({"properties": props.split(","), "needs": needs, "reverse": False},
                  open(f"/verif/mutants/{name}.json", "w"), indent=1)
        print("wrote", name, len(patch.splitlines()), "lines")
    finally:
        shutil.rmtree(scratch)
main()
