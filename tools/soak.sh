#!/bin/bash
# soak: run every claimed check under several VERIF_SEED values (no evidence written); print non-quiet results
cd "$(dirname "$0")/.."
props=$(/venv/bin/python -c "
import json
print(' '.join(c['property_id'] for c in json.load(open('MANIFEST.json'))['checks']))" 2>/dev/null)
for seed in ${SEEDS:-1 2 3 4 5 6 7 8}; do
  for p in $props; do
    out=$(VERIF_SEED=$seed VERIF_RUNS=${RUNS:-} ./check $p --tier ${TIER:-quick} --no-evidence 2>&1 | grep -v conda)
    rc=$?
    echo "seed=$seed $p: $(echo "$out" | grep -E '^\[' | tail -1)"
    echo "$out" | grep -E "VIOLATION|HARNESS|violation:|finding of another property" | head -8
  done
done
